"""
Surface programs shared by the implementation runner, the Python oracle and the Lean driver.

Everything is a nested tuple that mirrors the S-expression sent to the driver:

 values  ('i', 3) ('s', 'abc') ('s',) ('b', 1) ('n',) ('o', 2) ('l', v...) ('t', v...)
 terms   ('var', i) ('lit', v) ('attr', name, t) ('idx', v, t) ('call', m, (v...), t) ('flat', id, t)
 conds   ('cmp', op, l, r) ('in', item, cont) ('contains', cont, item) ('truth', t)
         ('pred', name, t...) ('and', c...) ('or', c...) ('not', c) ('sub', (t...), c...)

A case is a dict:
   id, classes [(name, base|'-')], objs [(idx, cls, {attr: value})], vars [(id, cls, [value...])],
   quant 'an'|'the', sel [term...], cond [cond...]|None, entity bool
"""
import itertools

CMP_OPS = ('eq', 'ne', 'lt', 'le', 'gt', 'ge')


# ---------------------------------------------------------------- S-expressions

def sexp(x):
    if isinstance(x, (tuple, list)):
        return '(' + ' '.join(sexp(y) for y in x) + ')'
    if isinstance(x, bool):
        return '1' if x else '0'
    return str(x)


def case_sexp(case):
    parts = ['q', case['id'],
             ('classes',) + tuple(case['classes']),
             ('objs',) + tuple((i, c, tuple((k, v) for k, v in attrs.items())) for i, c, attrs in case['objs']),
             ('vars',) + tuple((vid, cls) + tuple(raw) for vid, cls, raw in case['vars']),
             ('quant', case['quant']),
             ('sel',) + tuple(case['sel'])]
    if case.get('cond'):
        parts.append(('cond',) + tuple(case['cond']))
    if case.get('forall'):
        parts.append(('forall', case['forall'][0]) + tuple(case['forall'][1]))
    if case.get('foralls'):
        parts.append(('foralls',) + tuple((tuple(us),) + tuple(cs) for us, cs in case['foralls']))
        parts.append(('fafirst', 1 if case.get('fafirst') else 0))
    if case.get('decl_order'):
        parts.append(('decl',) + tuple(case['decl_order']))
    return sexp(tuple(parts))


# ---------------------------------------------------------------- canonical rendering

def render_val(v):
    """Render an encoded value exactly like PVal.render in lean/EqlModel/PyPrim.lean."""
    k = v[0]
    if k == 'i':
        return 'i%d' % v[1]
    if k == 's':
        return 's' + (v[1] if len(v) > 1 else '')
    if k == 'b':
        return 'b1' if v[1] else 'b0'
    if k == 'n':
        return 'n'
    if k == 'o':
        return 'o%d' % v[1]
    if k == 'l':
        return 'l[' + ','.join(render_val(x) for x in v[1:]) + ']'
    if k == 't':
        return 't[' + ','.join(render_val(x) for x in v[1:]) + ']'
    raise ValueError(v)


def render_row(row):
    return ','.join(render_val(v) for v in row)


# ---------------------------------------------------------------- oracle (ordinary Python semantics)

class Oracle:
    """Brute-force reference: filter of the (dependent) Cartesian product."""

    def __init__(self, case):
        self.case = case
        self.objs = {i: (cls, attrs) for i, cls, attrs in case['objs']}
        self.base = dict(case['classes'])

    # -- values are kept in encoded form; helpers decode on demand
    def is_sub(self, c, base):
        while True:
            if c == base:
                return True
            c = self.base.get(c, '-')
            if c in ('-', None):
                return False

    def is_inst(self, cls, v):
        if v[0] == 'o':
            return self.is_sub(self.objs[v[1]][0], cls)
        return False

    def dom(self, vid):
        for i, cls, raw in self.case['vars']:
            if i == vid:
                out, seen = [], set()
                for v in raw:
                    if self.is_inst(cls, v) and v not in seen:
                        seen.add(v)
                        out.append(v)
                return out
        raise KeyError(vid)

    @staticmethod
    def py(v):
        """Encoded value -> comparable Python value (objects by identity token)."""
        k = v[0]
        if k == 'i':
            return v[1]
        if k == 's':
            return v[1] if len(v) > 1 else ''
        if k == 'b':
            return bool(v[1])
        if k == 'n':
            return None
        if k == 'o':
            return ObjTok(v[1])
        if k == 'l':
            return [Oracle.py(x) for x in v[1:]]
        if k == 't':
            return tuple(Oracle.py(x) for x in v[1:])
        raise ValueError(v)

    def attr(self, name, v):
        if v[0] == 'i' and name == 'real':
            return v                              # (5).real == 5: an attribute of an attribute VALUE
        return self.objs[v[1]][1][name]

    def int_attr(self, name, v):
        return self.py(self.attr(name, v))

    def call(self, m, args, recv):
        if m == 'count':                          # list.count / tuple.count: a method of a plain value
            if recv[0] not in ('l', 't'):
                raise ValueError(m)
            return ('i', sum(1 for e in recv[1:] if self.py(e) == self.py(args[0])))
        if m == 'upper':
            if recv[0] != 's':
                raise ValueError(m)
            return ('s', (recv[1] if len(recv) > 1 else '').upper()) if (recv[1] if len(recv) > 1 else '') else ('s',)
        a = self.int_attr('a', recv)
        if m == 'gt':
            return ('b', 1 if a > self.py(args[0]) else 0)
        if m == 'plus':
            return ('i', a + self.py(args[0]))
        if m == 'is_even':
            return ('b', 1 if a % 2 == 0 else 0)
        if m == 'get_b':
            return self.attr('b', recv)
        raise ValueError(m)

    def fn(self, name, args):
        if name == 'is_big':
            return ('b', 1 if self.int_attr('a', args[0]) >= 2 else 0)
        if name == 'lt':
            return ('b', 1 if self.py(args[0]) < self.py(args[1]) else 0)
        if name == 'same_b':
            return ('b', 1 if self.py(self.attr('b', args[0])) == self.py(self.attr('b', args[1])) else 0)
        if name == 'val_a':
            return self.attr('a', args[0])
        if name == 'val_b':
            return self.attr('b', args[0])
        raise ValueError(name)

    def term_val(self, t, asg):
        k = t[0]
        if k == 'var':
            return asg[t[1]]
        if k == 'lit':
            return t[1]
        if k == 'attr':
            return self.attr(t[1], self.term_val(t[2], asg))
        if k == 'idx':
            v = self.term_val(t[2], asg)
            return v[1:][self.py(t[1])]
        if k == 'call':
            return self.call(t[1], t[2], self.term_val(t[3], asg))
        if k == 'flat':
            return asg[('f', t[1])]
        if k == 'concat':
            # one value: all inner elements over all bindings of the operand's variable, in order
            vs = sorted(term_vars(t[2]))
            out = []
            for combo in itertools.product(*[self.dom(v) for v in vs]):
                out += self.items(self.term_val(t[2], dict(zip(vs, combo))))
            return ('l',) + tuple(out)
        raise ValueError(t)

    @staticmethod
    def items(v):
        return list(v[1:]) if v[0] in ('l', 't') else [v]

    def holds(self, c, asg):
        k = c[0]
        if k == 'cmp':
            a, b = self.py(self.term_val(c[2], asg)), self.py(self.term_val(c[3], asg))
            op = c[1]
            return {'eq': lambda: a == b, 'ne': lambda: a != b, 'lt': lambda: a < b,
                    'le': lambda: a <= b, 'gt': lambda: a > b, 'ge': lambda: a >= b}[op]()
        if k == 'in':
            return self.py(self.term_val(c[1], asg)) in self.py(self.term_val(c[2], asg))
        if k == 'contains':
            return self.py(self.term_val(c[2], asg)) in self.py(self.term_val(c[1], asg))
        if k == 'truth':
            return bool(self.py(self.term_val(c[1], asg)))
        if k in ('pred', 'predc'):
            return bool(self.py(self.fn(c[1], [self.term_val(t, asg) for t in c[2:]])))
        if k == 'and':
            return all(self.holds(x, asg) for x in c[1:])
        if k == 'or':
            return any(self.holds(x, asg) for x in c[1:])
        if k == 'not':
            return not self.holds(c[1], asg)
        if k == 'sub':
            return all(self.holds(x, asg) for x in c[2:])
        raise ValueError(c)

    def rows(self):
        case = self.case
        mentioned = set()
        for c in (case.get('cond') or []):
            mentioned |= cond_vars(c)
        for t in case['sel']:
            mentioned |= term_vars(t)
        fa = case.get('forall')
        if fa:
            for c in fa[1]:
                mentioned |= cond_vars(c)
            mentioned.discard(fa[0])
        # and_(d?, for_all(us, c)...): a universal variable is free only where another conjunct mentions it
        fas = case.get('foralls') or []
        for us, cs in fas:
            m = set()
            for c in cs:
                m |= cond_vars(c)
            mentioned |= (m - set(us))
        vids = [v[0] for v in case['vars'] if v[0] in mentioned]
        doms = [self.dom(v) for v in vids]
        flats = []
        for c in (case.get('cond') or []):
            flats += cond_flats(c)
        for t in case['sel']:
            flats += term_flats(t)
        out = []
        for combo in itertools.product(*doms):
            asg = dict(zip(vids, combo))
            for full in self._extend(flats, asg):
                if all(self.holds(c, full) for c in (case.get('cond') or [])):
                    if fa and not all(all(self.holds(c, {**full, fa[0]: o}) for c in fa[1]) for o in self.dom(fa[0])):
                        continue
                    # a flatten node INSIDE a for_all's condition is existential: for every universal value SOME element
                    # must satisfy the condition (the element is not one of the bindings for_all keeps)
                    def fa_ok(us, cs, uc):
                        b0 = {**full, **dict(zip(us, uc))}
                        fl = [f for c in cs for f in cond_flats(c)]
                        return any(all(self.holds(c, ext) for c in cs) for ext in self._extend(fl, b0))
                    if not all(fa_ok(us, cs, uc)
                               for us, cs in fas for uc in itertools.product(*[self.dom(u) for u in us])):
                        continue
                    out.append(tuple(self.term_val(t, full) for t in case['sel']))
        return out

    def _extend(self, flats, asg):
        if not flats:
            yield asg
            return
        (fid, t), rest = flats[0], flats[1:]
        if ('f', fid) in asg:
            yield from self._extend(rest, asg)
            return
        for e in self.items(self.term_val(t, asg)):
            a2 = dict(asg)
            a2[('f', fid)] = e
            yield from self._extend(rest, a2)


class ObjTok:
    """Identity token for an object: equal only to itself, never ordered."""
    __slots__ = ('i',)

    def __init__(self, i):
        self.i = i

    def __eq__(self, other):
        return isinstance(other, ObjTok) and other.i == self.i

    def __hash__(self):
        return hash(('o', self.i))


def term_flats(t):
    k = t[0]
    if k in ('var', 'lit'):
        return []
    if k == 'attr':
        return term_flats(t[2])
    if k == 'idx':
        return term_flats(t[2])
    if k == 'call':
        return term_flats(t[3])
    if k == 'flat':
        return term_flats(t[2]) + [(t[1], t[2])]
    if k == 'concat':
        return []
    if k == 'subq':             # a sub-query as an operand (implementation-side form only)
        return [f for x in t[3:] for f in cond_flats(x)]
    if k in ('fnv', 'fnvc'):    # a user predicate as a value (implementation-side form only)
        return term_flats(t[2])
    raise ValueError(t)


def cond_flats(c):
    k = c[0]
    if k == 'cmp':
        return term_flats(c[2]) + term_flats(c[3])
    if k in ('in', 'contains'):
        return term_flats(c[1]) + term_flats(c[2])
    if k == 'truth':
        return term_flats(c[1])
    if k in ('pred', 'predc'):
        return [f for t in c[2:] for f in term_flats(t)]
    if k in ('and', 'or'):
        return [f for x in c[1:] for f in cond_flats(x)]
    if k == 'not':
        return cond_flats(c[1])
    if k == 'sub':
        return [f for x in c[2:] for f in cond_flats(x)] + [f for t in c[1] for f in term_flats(t)]
    raise ValueError(c)


def term_vars(t):
    k = t[0]
    if k == 'var':
        return {t[1]}
    if k == 'lit':
        return set()
    if k == 'attr':
        return term_vars(t[2])
    if k == 'idx':
        return term_vars(t[2])
    if k == 'call':
        return term_vars(t[3])
    if k == 'flat':
        return term_vars(t[2])
    if k == 'concat':
        return set()          # the operand's variable is aggregated away
    if k in ('fnv', 'fnvc'):
        return term_vars(t[2])
    if k == 'subq':
        own = {t[2]} if isinstance(t[2], int) else term_vars(t[2])
        return own.union(*[cond_vars(x) for x in t[3:]])
    raise ValueError(t)


def cond_vars(c):
    k = c[0]
    if k == 'cmp':
        return term_vars(c[2]) | term_vars(c[3])
    if k in ('in', 'contains'):
        return term_vars(c[1]) | term_vars(c[2])
    if k == 'truth':
        return term_vars(c[1])
    if k in ('pred', 'predc'):
        return set().union(*[term_vars(t) for t in c[2:]])
    if k in ('and', 'or'):
        return set().union(*[cond_vars(x) for x in c[1:]])
    if k == 'not':
        return cond_vars(c[1])
    if k == 'sub':
        return set().union(*[cond_vars(x) for x in c[2:]], *[term_vars(t) for t in c[1]])
    raise ValueError(c)


def cond_size(c):
    k = c[0]
    if k in ('and', 'or'):
        return 1 + sum(cond_size(x) for x in c[1:])
    if k == 'not':
        return 1 + cond_size(c[1])
    if k == 'sub':
        return 1 + sum(cond_size(x) for x in c[2:])
    return 1


def cond_ops(c, acc=None):
    """Histogram of node kinds (for the input-distribution part of the evidence)."""
    acc = {} if acc is None else acc
    k = c[0]
    key = k if k != 'cmp' else 'cmp_' + c[1]
    acc[key] = acc.get(key, 0) + 1
    if k in ('and', 'or'):
        for x in c[1:]:
            cond_ops(x, acc)
    elif k == 'not':
        cond_ops(c[1], acc)
    elif k == 'sub':
        for x in c[2:]:
            cond_ops(x, acc)
    return acc
