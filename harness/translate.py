"""
Translator: regenerates lean/EqlModel/Gen/Tables.lean from /repo/src on every run.

Only table-like code is translated (the comparator inverse table, the dunder -> Comparator table,
in_/contains, the Not dispatch, is_iterable's exclusion list, the caching default).  Matching is
strict: when the source no longer has the expected shape the translator raises Untranslatable and
the tie between model and code is treated as broken - never silently skipped.
"""
import ast
import os

from .common import REPO_SRC, LEAN_DIR

PKG = os.path.join(REPO_SRC, 'entity_query_language')
OUT = os.path.join(LEAN_DIR, 'EqlModel', 'Gen', 'Tables.lean')

OPS = {'eq', 'ne', 'lt', 'le', 'gt', 'ge', 'contains'}
LEAN_OP = {'eq': '.eq', 'ne': '.ne', 'lt': '.lt', 'le': '.le', 'gt': '.gt', 'ge': '.ge',
           'contains': '.contains', 'not_contains': '.notContains'}


class Untranslatable(Exception):
    pass


def _parse(name):
    path = os.path.join(PKG, name)
    try:
        return ast.parse(open(path).read(), filename=path)
    except (OSError, SyntaxError) as e:
        raise Untranslatable(f'{name}: {e}')


def _find(tree, kind, name):
    for n in ast.walk(tree):
        if isinstance(n, kind) and getattr(n, 'name', None) == name:
            return n
    raise Untranslatable(f'{kind.__name__} {name} not found')


def _op_of(node, allow_not_contains=False):
    """operator.X  /  not_contains"""
    if isinstance(node, ast.Attribute) and isinstance(node.value, ast.Name) and node.value.id == 'operator' \
            and node.attr in OPS:
        return node.attr
    if allow_not_contains and isinstance(node, ast.Name) and node.id == 'not_contains':
        return 'not_contains'
    raise Untranslatable(f'unexpected operation expression: {ast.dump(node)[:120]}')


def inverse_table(sym):
    cls = _find(sym, ast.ClassDef, 'Comparator')
    setter = None
    for n in cls.body:
        if isinstance(n, ast.FunctionDef) and n.name == '_invert_' and any(
                isinstance(d, ast.Attribute) and d.attr == 'setter' for d in n.decorator_list):
            setter = n
    if setter is None:
        raise Untranslatable('Comparator._invert_ setter not found')
    matches = [n for n in ast.walk(setter) if isinstance(n, ast.Match)]
    if len(matches) != 1:
        raise Untranslatable('Comparator._invert_ setter: expected exactly one match statement')
    # the guard at the top must be "if value == self._invert__: return" (the table is applied on every flag change)
    first = setter.body[0]
    if not (isinstance(first, ast.If) and isinstance(first.body[0], ast.Return) and first.body[0].value is None):
        raise Untranslatable('Comparator._invert_ setter: expected the early return on an unchanged flag')
    table = {}
    for case in matches[0].cases:
        pat = case.pattern
        if isinstance(pat, ast.MatchValue):
            src = _op_of(pat.value)
        elif isinstance(pat, ast.MatchAs) and pat.pattern is None and case.guard is not None:
            g = case.guard
            if (isinstance(g, ast.Compare) and len(g.ops) == 1 and isinstance(g.ops[0], ast.Is)
                    and isinstance(g.comparators[0], ast.Name) and g.comparators[0].id == 'not_contains'):
                src = 'not_contains'
            else:
                raise Untranslatable('Comparator._invert_ setter: unexpected guarded case')
        elif isinstance(pat, ast.MatchAs) and pat.pattern is None and case.guard is None:
            if not (len(case.body) == 1 and isinstance(case.body[0], ast.Raise)):
                raise Untranslatable('Comparator._invert_ setter: the default case must raise')
            continue
        else:
            raise Untranslatable('Comparator._invert_ setter: unexpected case pattern')
        if len(case.body) != 1 or not isinstance(case.body[0], ast.Assign):
            raise Untranslatable(f'Comparator._invert_ setter: case {src}: expected a single assignment')
        asg = case.body[0]
        tgt = asg.targets[0]
        if not (isinstance(tgt, ast.Attribute) and tgt.attr == 'operation'):
            raise Untranslatable(f'Comparator._invert_ setter: case {src}: assignment target is not self.operation')
        table[src] = _op_of(asg.value, allow_not_contains=True)
    # not_contains itself must be the negation of operator.contains
    nc = _find(sym, ast.FunctionDef, 'not_contains')
    ret = [n for n in nc.body if isinstance(n, ast.Return)]
    ok = False
    if len(ret) == 1 and isinstance(ret[0].value, ast.UnaryOp) and isinstance(ret[0].value.op, ast.Not):
        call = ret[0].value.operand
        if isinstance(call, ast.Call) and _safe_op(call.func) == 'contains' and \
                [getattr(a, 'id', None) for a in call.args] == [a.arg for a in nc.args.args]:
            ok = True
    if not ok:
        raise Untranslatable('not_contains is not "not operator.contains(a, b)"')
    missing = (OPS | {'not_contains'}) - set(table)
    if missing:
        raise Untranslatable(f'Comparator._invert_ setter: no case for {sorted(missing)}')
    return table


def _safe_op(node):
    try:
        return _op_of(node)
    except Untranslatable:
        return None


def _comparator_call(fn, what):
    """A function whose last statement is `return Comparator(a, b, operator.x)`."""
    ret = fn.body[-1]
    if not (isinstance(ret, ast.Return) and isinstance(ret.value, ast.Call)
            and getattr(ret.value.func, 'id', None) == 'Comparator' and len(ret.value.args) == 3
            and not ret.value.keywords):
        raise Untranslatable(f'{what}: expected "return Comparator(a, b, operator.x)"')
    a, b, op = ret.value.args
    if not (isinstance(a, ast.Name) and isinstance(b, ast.Name)):
        raise Untranslatable(f'{what}: Comparator operands are not plain parameters')
    return a.id, b.id, _op_of(op)


def dunder_table(sym):
    cls = _find(sym, ast.ClassDef, 'CanBehaveLikeAVariable')
    out = {}
    for name in ('eq', 'ne', 'lt', 'le', 'gt', 'ge'):
        fn = None
        for n in cls.body:
            if isinstance(n, ast.FunctionDef) and n.name == f'__{name}__':
                fn = n
        if fn is None:
            raise Untranslatable(f'CanBehaveLikeAVariable.__{name}__ not found')
        params = [a.arg for a in fn.args.args]
        if len(params) != 2:
            raise Untranslatable(f'__{name}__: unexpected signature')
        a, b, op = _comparator_call(fn, f'__{name}__')
        if (a, b) == (params[0], params[1]):
            swapped = False
        elif (a, b) == (params[1], params[0]):
            swapped = True
        else:
            raise Untranslatable(f'__{name}__: operands are not (self, other)')
        out[name] = (op, swapped)
    return out


def in_contains(ent):
    fn = _find(ent, ast.FunctionDef, 'in_')
    params = [a.arg for a in fn.args.args]
    if params != ['item', 'container']:
        raise Untranslatable('in_: unexpected signature')
    a, b, op = _comparator_call(fn, 'in_')
    if (a, b) == ('container', 'item'):
        in_cmp = (op, True)
    elif (a, b) == ('item', 'container'):
        in_cmp = (op, False)
    else:
        raise Untranslatable('in_: unexpected operands')
    fn = _find(ent, ast.FunctionDef, 'contains')
    params = [a.arg for a in fn.args.args]
    ret = fn.body[-1]
    if not (params == ['container', 'item'] and isinstance(ret, ast.Return) and isinstance(ret.value, ast.Call)
            and getattr(ret.value.func, 'id', None) == 'in_' and len(ret.value.args) == 2
            and all(isinstance(x, ast.Name) for x in ret.value.args)):
        raise Untranslatable('contains: expected "return in_(item, container)"')
    args = [x.id for x in ret.value.args]
    if args == ['item', 'container']:
        swapped = True
    elif args == ['container', 'item']:
        swapped = False
    else:
        raise Untranslatable('contains: unexpected arguments to in_')
    return in_cmp, swapped


def not_dispatch(sym):
    fn = _find(sym, ast.FunctionDef, 'Not')
    chain = None
    for n in fn.body:
        if isinstance(n, ast.If) and _isinstance_of(n.test) == 'ResultQuantifier':
            chain = n
    if chain is None:
        raise Untranslatable('Not: isinstance chain not found')
    order, node = [], chain
    info = {}
    while True:
        cls = _isinstance_of(node.test)
        if cls is None:
            raise Untranslatable('Not: unexpected test in the isinstance chain')
        order.append(cls)
        info[cls] = node.body
        if len(node.orelse) == 1 and isinstance(node.orelse[0], ast.If):
            node = node.orelse[0]
        else:
            info['other'] = node.orelse
            break
    if order != ['ResultQuantifier', 'Entity', 'SetOf', 'AND', 'OR']:
        raise Untranslatable(f'Not: dispatch order changed: {order}')
    if not isinstance(info['ResultQuantifier'][0], ast.Raise):
        raise Untranslatable('Not: ResultQuantifier branch must raise')

    def built(body, what):
        """operand = Cls(Not(operand.left), Not(operand.right))"""
        if len(body) != 1 or not isinstance(body[0], ast.Assign) or not isinstance(body[0].value, ast.Call):
            raise Untranslatable(f'Not: {what} branch: expected one assignment of a constructor call')
        call = body[0].value
        cls = getattr(call.func, 'id', None)
        args = call.args
        ok = len(args) == 2 and all(
            isinstance(a, ast.Call) and getattr(a.func, 'id', None) == 'Not' and len(a.args) == 1
            and isinstance(a.args[0], ast.Attribute) and a.args[0].attr == side
            for a, side in zip(args, ('left', 'right')))
        if not ok:
            raise Untranslatable(f'Not: {what} branch: operands are not (Not(operand.left), Not(operand.right))')
        return cls

    and_cls = built(info['AND'], 'AND')
    or_cls = built(info['OR'], 'OR')
    if and_cls not in ('ElseIf', 'AND') or or_cls not in ('ElseIf', 'AND'):
        raise Untranslatable(f'Not: builds {and_cls}/{or_cls}')
    for what in ('Entity', 'SetOf'):
        body = info[what]
        ok = (len(body) == 1 and isinstance(body[0], ast.Assign) and isinstance(body[0].value, ast.Call)
              and len(body[0].value.args) == 2
              and isinstance(body[0].value.args[0], ast.Call)
              and getattr(body[0].value.args[0].func, 'id', None) == 'Not'
              and isinstance(body[0].value.args[0].args[0], ast.Attribute)
              and body[0].value.args[0].args[0].attr == '_child_'
              and isinstance(body[0].value.args[1], ast.Attribute)
              and body[0].value.args[1].attr == 'selected_variables')
        if not ok:
            raise Untranslatable(f'Not: {what} branch: expected the descriptor rebuilt over the negated child')
    other = info['other']
    toggles = None
    if len(other) == 1 and isinstance(other[0], ast.Assign) and isinstance(other[0].targets[0], ast.Attribute) \
            and other[0].targets[0].attr == '_invert_':
        v = other[0].value
        if isinstance(v, ast.UnaryOp) and isinstance(v.op, ast.Not) and isinstance(v.operand, ast.Attribute) \
                and v.operand.attr == '_invert_':
            toggles = True
        elif isinstance(v, ast.Constant) and v.value is True:
            toggles = False
    if toggles is None:
        raise Untranslatable('Not: default branch does not assign operand._invert_')
    return order, and_cls == 'ElseIf', or_cls == 'AND', toggles


def _isinstance_of(test):
    if isinstance(test, ast.Call) and getattr(test.func, 'id', None) == 'isinstance' and len(test.args) == 2 \
            and isinstance(test.args[1], ast.Name):
        return test.args[1].id
    return None


def is_iterable_exclusions(utils):
    fn = _find(utils, ast.FunctionDef, 'is_iterable')
    ret = fn.body[-1]
    try:
        assert isinstance(ret, ast.Return) and isinstance(ret.value, ast.BoolOp) and isinstance(ret.value.op, ast.And)
        has, neg = ret.value.values
        assert isinstance(has, ast.Call) and has.func.id == 'hasattr' and has.args[1].value == '__iter__'
        assert isinstance(neg, ast.UnaryOp) and isinstance(neg.op, ast.Not)
        call = neg.operand
        assert call.func.id == 'isinstance'
        return [e.id for e in call.args[1].elts]
    except (AssertionError, AttributeError):
        raise Untranslatable('is_iterable: expected hasattr(obj, "__iter__") and not isinstance(obj, (...))')


def caching_default(cache):
    for n in ast.walk(cache):
        if isinstance(n, ast.Assign) and getattr(n.targets[0], 'id', None) == '_caching_enabled':
            for kw in n.value.keywords:
                if kw.arg == 'default' and isinstance(kw.value, ast.Constant) and isinstance(kw.value.value, bool):
                    return kw.value.value
    raise Untranslatable('_caching_enabled default not found')


def render():
    sym = _parse('symbolic.py')
    ent = _parse('entity.py')
    utils = _parse('utils.py')
    cache = _parse('cache_data.py')
    inv = inverse_table(sym)
    dun = dunder_table(sym)
    in_cmp, cont_swapped = in_contains(ent)
    order, and_elseif, or_and, toggles = not_dispatch(sym)
    excl = is_iterable_exclusions(utils)
    cdef = caching_default(cache)
    b = lambda x: 'true' if x else 'false'  # noqa: E731
    L = []
    L.append('-- GENERATED by harness/translate.py from /repo/src/entity_query_language — do not edit.')
    L.append('import EqlModel.Basic')
    L.append('namespace Eql.Gen')
    L.append('')
    L.append('/-- `Comparator._invert_` setter (symbolic.py): the operation that replaces `op` when the')
    L.append('    invert flag changes. -/')
    L.append('def invOp : CmpOp → CmpOp')
    for k in ('lt', 'gt', 'le', 'ge', 'eq', 'ne', 'contains', 'not_contains'):
        L.append(f'  | {LEAN_OP[k]} => {LEAN_OP[inv[k]]}')
    L.append('')
    L.append('/-- Rich-comparison dunders of `CanBehaveLikeAVariable`: `self.__op__(other)` builds')
    L.append('    `Comparator(a, b, operation)`; the flag is `true` when `(a, b) = (other, self)`. -/')
    L.append('def dunder : SurfOp → CmpOp × Bool')
    for k in ('eq', 'ne', 'lt', 'le', 'gt', 'ge'):
        L.append(f'  | .{k} => ({LEAN_OP[dun[k][0]]}, {b(dun[k][1])})')
    L.append('')
    L.append('/-- entity.py `in_(item, container)` builds `Comparator(a, b, operation)`; the flag is `true`')
    L.append('    when `(a, b) = (container, item)`. -/')
    L.append(f'def inCmp : CmpOp × Bool := ({LEAN_OP[in_cmp[0]]}, {b(in_cmp[1])})')
    L.append('')
    L.append('/-- entity.py `contains(container, item)` returns `in_(item, container)`: `true` when its')
    L.append('    arguments are passed on in swapped order. -/')
    L.append(f'def containsDelegatesSwapped : Bool := {b(cont_swapped)}')
    L.append('')
    L.append('/-- The classes `Not` dispatches on, in source order. -/')
    L.append('inductive NotCase where')
    L.append('  | resultQuantifier | entity | setOf | and | or | other')
    L.append('  deriving DecidableEq, Repr')
    L.append('')
    names = {'ResultQuantifier': '.resultQuantifier', 'Entity': '.entity', 'SetOf': '.setOf', 'AND': '.and',
             'OR': '.or'}
    L.append('def notDispatch : List NotCase := [' + ', '.join(names[o] for o in order) + ', .other]')
    L.append('')
    L.append('/-- `Not` on an `AND` builds this operator over the negated operands (`true` = ElseIf), and on')
    L.append('    an `OR` builds this one (`true` = AND). -/')
    L.append(f'def notAndBuildsElseIf : Bool := {b(and_elseif)}')
    L.append(f'def notOrBuildsAnd : Bool := {b(or_and)}')
    L.append('/-- `Not` on any other node toggles its invert flag (`operand._invert_ = not operand._invert_`). -/')
    L.append(f'def notTogglesFlag : Bool := {b(toggles)}')
    L.append('')
    L.append('/-- `utils.is_iterable`: types that have `__iter__` but are not treated as iterables. -/')
    L.append('def notIterableTypes : List String := [' + ', '.join(f'"{e}"' for e in excl) + ']')
    L.append('')
    L.append('/-- cache_data.py: default of the caching switch. -/')
    L.append(f'def cachingDefault : Bool := {b(cdef)}')
    L.append('')
    L.append('end Eql.Gen')
    return '\n'.join(L) + '\n'


def regenerate():
    text = render()
    old = open(OUT).read() if os.path.exists(OUT) else None
    if old != text:
        os.makedirs(os.path.dirname(OUT), exist_ok=True)
        with open(OUT, 'w') as fh:
            fh.write(text)
    return text


if __name__ == '__main__':
    print(regenerate())
