"""
Translator: regenerates lean/EqlModel/Gen/Tables.lean from /repo/src on every run.

Only table-like code is translated (the comparator inverse table, the dunder -> Comparator table,
in_/contains, the Not dispatch, is_iterable's exclusion list, the caching default).  Matching is
strict: when the source no longer has the expected shape the translator raises Untranslatable and
the tie between model and code is treated as broken - never silently skipped.
"""
import ast
import os

from .common import REPO_SRC, LEAN_DIR

PKG = os.path.join(REPO_SRC, 'entity_query_language')
OUT = os.environ.get('EQL_TABLES_OUT') or os.path.join(LEAN_DIR, 'EqlModel', 'Gen', 'Tables.lean')

OPS = {'eq', 'ne', 'lt', 'le', 'gt', 'ge', 'contains'}
LEAN_OP = {'eq': '.eq', 'ne': '.ne', 'lt': '.lt', 'le': '.le', 'gt': '.gt', 'ge': '.ge',
           'contains': '.contains', 'not_contains': '.notContains'}


class Untranslatable(Exception):
    pass


def _parse(name):
    path = os.path.join(PKG, name)
    try:
        return ast.parse(open(path).read(), filename=path)
    except (OSError, SyntaxError) as e:
        raise Untranslatable(f'{name}: {e}')


def _find(tree, kind, name):
    for n in ast.walk(tree):
        if isinstance(n, kind) and getattr(n, 'name', None) == name:
            return n
    raise Untranslatable(f'{kind.__name__} {name} not found')


def _op_of(node, allow_not_contains=False):
    """operator.X  /  not_contains"""
    if isinstance(node, ast.Attribute) and isinstance(node.value, ast.Name) and node.value.id == 'operator' \
            and node.attr in OPS:
        return node.attr
    if allow_not_contains and isinstance(node, ast.Name) and node.id == 'not_contains':
        return 'not_contains'
    raise Untranslatable(f'unexpected operation expression: {ast.dump(node)[:120]}')


def inverse_table(sym):
    cls = _find(sym, ast.ClassDef, 'Comparator')
    setter = None
    for n in cls.body:
        if isinstance(n, ast.FunctionDef) and n.name == '_invert_' and any(
                isinstance(d, ast.Attribute) and d.attr == 'setter' for d in n.decorator_list):
            setter = n
    if setter is None:
        raise Untranslatable('Comparator._invert_ setter not found')
    matches = [n for n in ast.walk(setter) if isinstance(n, ast.Match)]
    if len(matches) != 1:
        raise Untranslatable('Comparator._invert_ setter: expected exactly one match statement')
    # the guard at the top must be "if value == self._invert__: return" (the table is applied on every flag change)
    first = setter.body[0]
    if not (isinstance(first, ast.If) and isinstance(first.body[0], ast.Return) and first.body[0].value is None):
        raise Untranslatable('Comparator._invert_ setter: expected the early return on an unchanged flag')
    table = {}
    for case in matches[0].cases:
        pat = case.pattern
        if isinstance(pat, ast.MatchValue):
            src = _op_of(pat.value)
        elif isinstance(pat, ast.MatchAs) and pat.pattern is None and case.guard is not None:
            g = case.guard
            if (isinstance(g, ast.Compare) and len(g.ops) == 1 and isinstance(g.ops[0], ast.Is)
                    and isinstance(g.comparators[0], ast.Name) and g.comparators[0].id == 'not_contains'):
                src = 'not_contains'
            else:
                raise Untranslatable('Comparator._invert_ setter: unexpected guarded case')
        elif isinstance(pat, ast.MatchAs) and pat.pattern is None and case.guard is None:
            if not (len(case.body) == 1 and isinstance(case.body[0], ast.Raise)):
                raise Untranslatable('Comparator._invert_ setter: the default case must raise')
            continue
        else:
            raise Untranslatable('Comparator._invert_ setter: unexpected case pattern')
        if len(case.body) != 1 or not isinstance(case.body[0], ast.Assign):
            raise Untranslatable(f'Comparator._invert_ setter: case {src}: expected a single assignment')
        asg = case.body[0]
        tgt = asg.targets[0]
        if not (isinstance(tgt, ast.Attribute) and tgt.attr == 'operation'):
            raise Untranslatable(f'Comparator._invert_ setter: case {src}: assignment target is not self.operation')
        table[src] = _op_of(asg.value, allow_not_contains=True)
    # not_contains itself must be the negation of operator.contains
    nc = _find(sym, ast.FunctionDef, 'not_contains')
    ret = [n for n in nc.body if isinstance(n, ast.Return)]
    ok = False
    if len(ret) == 1 and isinstance(ret[0].value, ast.UnaryOp) and isinstance(ret[0].value.op, ast.Not):
        call = ret[0].value.operand
        if isinstance(call, ast.Call) and _safe_op(call.func) == 'contains' and \
                [getattr(a, 'id', None) for a in call.args] == [a.arg for a in nc.args.args]:
            ok = True
    if not ok:
        raise Untranslatable('not_contains is not "not operator.contains(a, b)"')
    missing = (OPS | {'not_contains'}) - set(table)
    if missing:
        raise Untranslatable(f'Comparator._invert_ setter: no case for {sorted(missing)}')
    return table


def _safe_op(node):
    try:
        return _op_of(node)
    except Untranslatable:
        return None


def _comparator_call(fn, what):
    """A function whose last statement is `return Comparator(a, b, operator.x)`."""
    ret = fn.body[-1]
    if not (isinstance(ret, ast.Return) and isinstance(ret.value, ast.Call)
            and getattr(ret.value.func, 'id', None) == 'Comparator' and len(ret.value.args) == 3
            and not ret.value.keywords):
        raise Untranslatable(f'{what}: expected "return Comparator(a, b, operator.x)"')
    a, b, op = ret.value.args
    if not (isinstance(a, ast.Name) and isinstance(b, ast.Name)):
        raise Untranslatable(f'{what}: Comparator operands are not plain parameters')
    return a.id, b.id, _op_of(op)


def dunder_table(sym):
    cls = _find(sym, ast.ClassDef, 'CanBehaveLikeAVariable')
    out = {}
    for name in ('eq', 'ne', 'lt', 'le', 'gt', 'ge'):
        fn = None
        for n in cls.body:
            if isinstance(n, ast.FunctionDef) and n.name == f'__{name}__':
                fn = n
        if fn is None:
            raise Untranslatable(f'CanBehaveLikeAVariable.__{name}__ not found')
        params = [a.arg for a in fn.args.args]
        if len(params) != 2:
            raise Untranslatable(f'__{name}__: unexpected signature')
        a, b, op = _comparator_call(fn, f'__{name}__')
        if (a, b) == (params[0], params[1]):
            swapped = False
        elif (a, b) == (params[1], params[0]):
            swapped = True
        else:
            raise Untranslatable(f'__{name}__: operands are not (self, other)')
        out[name] = (op, swapped)
    return out


def in_contains(ent):
    fn = _find(ent, ast.FunctionDef, 'in_')
    params = [a.arg for a in fn.args.args]
    if params != ['item', 'container']:
        raise Untranslatable('in_: unexpected signature')
    a, b, op = _comparator_call(fn, 'in_')
    if (a, b) == ('container', 'item'):
        in_cmp = (op, True)
    elif (a, b) == ('item', 'container'):
        in_cmp = (op, False)
    else:
        raise Untranslatable('in_: unexpected operands')
    fn = _find(ent, ast.FunctionDef, 'contains')
    params = [a.arg for a in fn.args.args]
    ret = fn.body[-1]
    if not (params == ['container', 'item'] and isinstance(ret, ast.Return) and isinstance(ret.value, ast.Call)
            and getattr(ret.value.func, 'id', None) == 'in_' and len(ret.value.args) == 2
            and all(isinstance(x, ast.Name) for x in ret.value.args)):
        raise Untranslatable('contains: expected "return in_(item, container)"')
    args = [x.id for x in ret.value.args]
    if args == ['item', 'container']:
        swapped = True
    elif args == ['container', 'item']:
        swapped = False
    else:
        raise Untranslatable('contains: unexpected arguments to in_')
    return in_cmp, swapped


def not_dispatch(sym):
    fn = _find(sym, ast.FunctionDef, 'Not')
    chain = None
    for n in fn.body:
        if isinstance(n, ast.If) and _isinstance_of(n.test) == 'ResultQuantifier':
            chain = n
    if chain is None:
        raise Untranslatable('Not: isinstance chain not found')
    order, node = [], chain
    info = {}
    while True:
        cls = _isinstance_of(node.test)
        if cls is None:
            raise Untranslatable('Not: unexpected test in the isinstance chain')
        order.append(cls)
        info[cls] = node.body
        if len(node.orelse) == 1 and isinstance(node.orelse[0], ast.If):
            node = node.orelse[0]
        else:
            info['other'] = node.orelse
            break
    if order != ['ResultQuantifier', 'Entity', 'SetOf', 'AND', 'OR']:
        raise Untranslatable(f'Not: dispatch order changed: {order}')
    if not isinstance(info['ResultQuantifier'][0], ast.Raise):
        raise Untranslatable('Not: ResultQuantifier branch must raise')

    def built(body, what):
        """operand = Cls(Not(operand.left), Not(operand.right))"""
        if len(body) != 1 or not isinstance(body[0], ast.Assign) or not isinstance(body[0].value, ast.Call):
            raise Untranslatable(f'Not: {what} branch: expected one assignment of a constructor call')
        call = body[0].value
        cls = getattr(call.func, 'id', None)
        args = call.args
        ok = len(args) == 2 and all(
            isinstance(a, ast.Call) and getattr(a.func, 'id', None) == 'Not' and len(a.args) == 1
            and isinstance(a.args[0], ast.Attribute) and a.args[0].attr == side
            for a, side in zip(args, ('left', 'right')))
        if not ok:
            raise Untranslatable(f'Not: {what} branch: operands are not (Not(operand.left), Not(operand.right))')
        return cls

    and_cls = built(info['AND'], 'AND')
    or_cls = built(info['OR'], 'OR')
    if and_cls not in ('ElseIf', 'AND') or or_cls not in ('ElseIf', 'AND'):
        raise Untranslatable(f'Not: builds {and_cls}/{or_cls}')
    for what in ('Entity', 'SetOf'):
        body = info[what]
        ok = (len(body) == 1 and isinstance(body[0], ast.Assign) and isinstance(body[0].value, ast.Call)
              and len(body[0].value.args) == 2
              and isinstance(body[0].value.args[0], ast.Call)
              and getattr(body[0].value.args[0].func, 'id', None) == 'Not'
              and isinstance(body[0].value.args[0].args[0], ast.Attribute)
              and body[0].value.args[0].args[0].attr == '_child_'
              and isinstance(body[0].value.args[1], ast.Attribute)
              and body[0].value.args[1].attr == 'selected_variables')
        if not ok:
            raise Untranslatable(f'Not: {what} branch: expected the descriptor rebuilt over the negated child')
    other = info['other']
    toggles = None
    if len(other) == 1 and isinstance(other[0], ast.Assign) and isinstance(other[0].targets[0], ast.Attribute) \
            and other[0].targets[0].attr == '_invert_':
        v = other[0].value
        if isinstance(v, ast.UnaryOp) and isinstance(v.op, ast.Not) and isinstance(v.operand, ast.Attribute) \
                and v.operand.attr == '_invert_':
            toggles = True
        elif isinstance(v, ast.Constant) and v.value is True:
            toggles = False
    if toggles is None:
        raise Untranslatable('Not: default branch does not assign operand._invert_')
    return order, and_cls == 'ElseIf', or_cls == 'AND', toggles


def _isinstance_of(test):
    if isinstance(test, ast.Call) and getattr(test.func, 'id', None) == 'isinstance' and len(test.args) == 2 \
            and isinstance(test.args[1], ast.Name):
        return test.args[1].id
    return None


def is_iterable_exclusions(utils):
    fn = _find(utils, ast.FunctionDef, 'is_iterable')
    ret = fn.body[-1]
    try:
        assert isinstance(ret, ast.Return) and isinstance(ret.value, ast.BoolOp) and isinstance(ret.value.op, ast.And)
        has, neg = ret.value.values
        assert isinstance(has, ast.Call) and has.func.id == 'hasattr' and has.args[1].value == '__iter__'
        assert isinstance(neg, ast.UnaryOp) and isinstance(neg.op, ast.Not)
        call = neg.operand
        assert call.func.id == 'isinstance'
        return [e.id for e in call.args[1].elts]
    except (AssertionError, AttributeError):
        raise Untranslatable('is_iterable: expected hasattr(obj, "__iter__") and not isinstance(obj, (...))')


def caching_default(cache):
    for n in ast.walk(cache):
        if isinstance(n, ast.Assign) and getattr(n.targets[0], 'id', None) == '_caching_enabled':
            for kw in n.value.keywords:
                if kw.arg == 'default' and isinstance(kw.value, ast.Constant) and isinstance(kw.value.value, bool):
                    return kw.value.value
    raise Untranslatable('_caching_enabled default not found')



# ----------------------------------------------------------------------------- guards and entry points

def _calls(node, name):
    """All Call nodes below `node` whose function is `name` (a bare name or an attribute of anything)."""
    out = []
    for n in ast.walk(node):
        if isinstance(n, ast.Call):
            f = n.func
            if (isinstance(f, ast.Name) and f.id == name) or (isinstance(f, ast.Attribute) and f.attr == name):
                out.append(n)
    return out


def _raises_attribute_error_unless_symbolic(stmt):
    """`if not in_symbolic_mode(): raise AttributeError(...)`"""
    if not isinstance(stmt, ast.If) or stmt.orelse:
        return False
    t = stmt.test
    if not (isinstance(t, ast.UnaryOp) and isinstance(t.op, ast.Not) and isinstance(t.operand, ast.Call)
            and getattr(t.operand.func, 'id', None) == 'in_symbolic_mode' and not t.operand.args):
        return False
    return len(stmt.body) == 1 and isinstance(stmt.body[0], ast.Raise) and isinstance(stmt.body[0].exc, ast.Call) \
        and getattr(stmt.body[0].exc.func, 'id', None) == 'AttributeError'


def variable_operators(sym):
    """Every dunder method defined on CanBehaveLikeAVariable (the symbolic operators of a variable) and whether it
    begins with the symbolic-mode guard; and whether the guard helper raises AttributeError outside symbolic mode."""
    cls = _find(sym, ast.ClassDef, 'CanBehaveLikeAVariable')
    helper_ok = False
    ops = []
    for n in cls.body:
        if not isinstance(n, ast.FunctionDef):
            continue
        if n.name == '_if_not_in_symbolic_mode_raise_error_':
            body = [b for b in n.body if not (isinstance(b, ast.Expr) and isinstance(b.value, ast.Constant))]
            helper_ok = len(body) == 1 and _raises_attribute_error_unless_symbolic(body[0])
        if n.name.startswith('__') and n.name.endswith('__') and n.name not in ('__hash__', '__post_init__'):
            body = [b for b in n.body if not (isinstance(b, ast.Expr) and isinstance(b.value, ast.Constant))]
            first = body[0] if body else None
            guarded = bool(first is not None and (
                _raises_attribute_error_unless_symbolic(first) or
                (isinstance(first, ast.Expr) and isinstance(first.value, ast.Call)
                 and isinstance(first.value.func, ast.Attribute)
                 and first.value.func.attr == '_if_not_in_symbolic_mode_raise_error_')))
            ops.append((n.name, guarded))
    if not ops:
        raise Untranslatable('CanBehaveLikeAVariable defines no operator method')
    return ops, helper_ok


def _with_mode_none(node):
    """The `with symbolic_mode(mode=None):` statements below `node`."""
    out = []
    for n in ast.walk(node):
        if isinstance(n, ast.With):
            for item in n.items:
                c = item.context_expr
                if isinstance(c, ast.Call) and getattr(c.func, 'id', None) == 'symbolic_mode' and not c.args and \
                        len(c.keywords) == 1 and c.keywords[0].arg == 'mode' and \
                        isinstance(c.keywords[0].value, ast.Constant) and c.keywords[0].value.value is None:
                    out.append(n)
    return out


def entry_points(sym):
    """How the two entry points and the mode guard are written (flags, each `true` on the pinned tree):
    an_mode_off          An.evaluate advances its result stream only inside `with symbolic_mode(mode=None)`
    an_yield_outside     ... and yields OUTSIDE that block (the caller's mode is untouched while the iterator is suspended)
    the_mode_off         The.evaluate computes inside `with symbolic_mode(mode=None)`
    restores_in_finally  symbolic_mode restores the previous mode in a `finally`
    hides_contexts       symbolic_mode(mode=None) swaps the expression-context stack for an empty one and restores it
    an_resets_finally    An.evaluate calls _reset_after_evaluation_(completed) in its `finally`
    the_resets_finally   The.evaluate does too
    an_resets_at_start   An.evaluate resets as after an incomplete evaluation when a reached query is marked as running
    reset_reaches_domains  _nodes_reached_by_evaluation_ follows a variable's symbolic domain source"""
    an = _find(sym, ast.ClassDef, 'An')
    the = _find(sym, ast.ClassDef, 'The')
    rq = _find(sym, ast.ClassDef, 'ResultQuantifier')
    an_eval = next((n for n in an.body if isinstance(n, ast.FunctionDef) and n.name == 'evaluate'), None)
    the_eval = next((n for n in the.body if isinstance(n, ast.FunctionDef) and n.name == 'evaluate'), None)
    smode = _find(sym, ast.FunctionDef, 'symbolic_mode')
    reached = next((n for n in rq.body if isinstance(n, ast.FunctionDef) and n.name == '_nodes_reached_by_evaluation_'), None)
    if an_eval is None or the_eval is None or reached is None:
        raise Untranslatable('An.evaluate / The.evaluate / _nodes_reached_by_evaluation_ not found')
    flags = {}
    # An.evaluate: every next(results) lies inside a with-mode-None block; no yield does
    withs = _with_mode_none(an_eval)
    nexts = _calls(an_eval, 'next')
    inside = [c for w in withs for c in _calls(w, 'next')]
    flags['an_mode_off'] = bool(nexts) and len(inside) == len(nexts)
    yields_inside = [y for w in withs for y in ast.walk(w) if isinstance(y, (ast.Yield, ast.YieldFrom))]
    flags['an_yield_outside'] = any(isinstance(y, ast.Yield) for y in ast.walk(an_eval)) and not yields_inside
    # The.evaluate: the call of _evaluate_ lies inside a with-mode-None block
    tw = _with_mode_none(the_eval)
    te = _calls(the_eval, '_evaluate_')
    flags['the_mode_off'] = bool(te) and len([c for w in tw for c in _calls(w, '_evaluate_')]) == len(te)

    def finally_calls(fn, name):
        return [c for t in ast.walk(fn) if isinstance(t, ast.Try) for st in t.finalbody for c in _calls(st, name)]
    flags['restores_in_finally'] = bool(finally_calls(smode, '_set_symbolic_mode'))
    # hides_contexts: an `if mode is None:` that assigns SymbolicExpression._symbolic_expression_stack_ = [] and a
    # finally that assigns it back
    def assigns_stack(node, empty):
        for a in ast.walk(node):
            if isinstance(a, ast.Assign) and len(a.targets) == 1 and isinstance(a.targets[0], ast.Attribute) \
                    and a.targets[0].attr == '_symbolic_expression_stack_':
                is_empty = isinstance(a.value, ast.List) and not a.value.elts
                if is_empty == empty:
                    return True
        return False
    hides = False
    for n in ast.walk(smode):
        if isinstance(n, ast.If) and isinstance(n.test, ast.Compare) and getattr(n.test.left, 'id', None) == 'mode' \
                and len(n.test.ops) == 1 and isinstance(n.test.ops[0], ast.Is) \
                and isinstance(n.test.comparators[0], ast.Constant) and n.test.comparators[0].value is None:
            hides = hides or assigns_stack(n, True)
    restores = any(assigns_stack(st, False) for t in ast.walk(smode) if isinstance(t, ast.Try) for st in t.finalbody)
    flags['hides_contexts'] = hides and restores
    flags['an_resets_finally'] = bool(finally_calls(an_eval, '_reset_after_evaluation_'))
    flags['the_resets_finally'] = bool(finally_calls(the_eval, '_reset_after_evaluation_'))
    # start-of-evaluation reset: an `if` that mentions _running_evaluation_ and calls _reset_after_evaluation_(completed=False)
    start = False
    for n in an_eval.body:
        if isinstance(n, ast.If) and any(isinstance(a, ast.Attribute) and a.attr == '_running_evaluation_' for a in ast.walk(n.test)):
            for c in _calls(n, '_reset_after_evaluation_'):
                if any(k.arg == 'completed' and isinstance(k.value, ast.Constant) and k.value.value is False for k in c.keywords):
                    start = True
    flags['an_resets_at_start'] = start
    flags['reset_reaches_domains'] = any(
        isinstance(a, ast.Attribute) and a.attr == 'domain' and isinstance(a.value, ast.Attribute)
        and a.value.attr == '_domain_source_' for c in _calls(reached, 'append') for a in ast.walk(c))
    return flags


def cache_check_guards_keyless(cache):
    """`IndexedCache.check` begins with `if not self.keys: return False` (a cache without keys never claims coverage)."""
    cls = _find(cache, ast.ClassDef, 'IndexedCache')
    fn = next((n for n in cls.body if isinstance(n, ast.FunctionDef) and n.name == 'check'), None)
    if fn is None:
        raise Untranslatable('IndexedCache.check not found')
    body = [b for b in fn.body if not (isinstance(b, ast.Expr) and isinstance(b.value, ast.Constant))]
    first = body[0] if body else None
    return bool(isinstance(first, ast.If) and isinstance(first.test, ast.UnaryOp) and isinstance(first.test.op, ast.Not)
                and isinstance(first.test.operand, ast.Attribute) and first.test.operand.attr == 'keys'
                and len(first.body) == 1 and isinstance(first.body[0], ast.Return)
                and isinstance(first.body[0].value, ast.Constant) and first.body[0].value.value is False)


def comparator_right_requires_left(sym):
    """`_required_variables_from_child_` of a comparison: a child OTHER than the left operand requires the variables of the
    left operand (`required_vars.update(self.left._unique_variables_)` in the else-part of `if child is self.left:` of
    BinaryOperator's method, or anywhere in an override of the method in Comparator)."""
    def updates_with_left(node):
        for c in _calls(node, 'update'):
            for a in c.args:
                for x in ast.walk(a):
                    if isinstance(x, ast.Attribute) and x.attr == '_unique_variables_' and isinstance(x.value, ast.Attribute) \
                            and x.value.attr == 'left' and isinstance(x.value.value, ast.Name) and x.value.value.id == 'self':
                        return True
        return False

    def method(cls_name):
        cls = _find(sym, ast.ClassDef, cls_name)
        return next((n for n in cls.body if isinstance(n, ast.FunctionDef) and n.name == '_required_variables_from_child_'), None)
    fn = method('BinaryOperator')
    if fn is None:
        raise Untranslatable('BinaryOperator._required_variables_from_child_ not found')
    for n in ast.walk(fn):
        if isinstance(n, ast.If) and isinstance(n.test, ast.Compare) and len(n.test.ops) == 1 \
                and isinstance(n.test.ops[0], ast.Is) and isinstance(n.test.left, ast.Name) and n.test.left.id == 'child' \
                and isinstance(n.test.comparators[0], ast.Attribute) and n.test.comparators[0].attr == 'left':
            if any(updates_with_left(o) for o in n.orelse):
                return True
    over = method('Comparator')
    return bool(over is not None and updates_with_left(over))


def render():
    sym = _parse('symbolic.py')
    ent = _parse('entity.py')
    utils = _parse('utils.py')
    cache = _parse('cache_data.py')
    inv = inverse_table(sym)
    dun = dunder_table(sym)
    in_cmp, cont_swapped = in_contains(ent)
    order, and_elseif, or_and, toggles = not_dispatch(sym)
    excl = is_iterable_exclusions(utils)
    cdef = caching_default(cache)
    b = lambda x: 'true' if x else 'false'  # noqa: E731
    L = []
    L.append('-- GENERATED by harness/translate.py from /repo/src/entity_query_language — do not edit.')
    L.append('import EqlModel.Basic')
    L.append('namespace Eql.Gen')
    L.append('')
    L.append('/-- `Comparator._invert_` setter (symbolic.py): the operation that replaces `op` when the')
    L.append('    invert flag changes. -/')
    L.append('def invOp : CmpOp → CmpOp')
    for k in ('lt', 'gt', 'le', 'ge', 'eq', 'ne', 'contains', 'not_contains'):
        L.append(f'  | {LEAN_OP[k]} => {LEAN_OP[inv[k]]}')
    L.append('')
    L.append('/-- Rich-comparison dunders of `CanBehaveLikeAVariable`: `self.__op__(other)` builds')
    L.append('    `Comparator(a, b, operation)`; the flag is `true` when `(a, b) = (other, self)`. -/')
    L.append('def dunder : SurfOp → CmpOp × Bool')
    for k in ('eq', 'ne', 'lt', 'le', 'gt', 'ge'):
        L.append(f'  | .{k} => ({LEAN_OP[dun[k][0]]}, {b(dun[k][1])})')
    L.append('')
    L.append('/-- entity.py `in_(item, container)` builds `Comparator(a, b, operation)`; the flag is `true`')
    L.append('    when `(a, b) = (container, item)`. -/')
    L.append(f'def inCmp : CmpOp × Bool := ({LEAN_OP[in_cmp[0]]}, {b(in_cmp[1])})')
    L.append('')
    L.append('/-- entity.py `contains(container, item)` returns `in_(item, container)`: `true` when its')
    L.append('    arguments are passed on in swapped order. -/')
    L.append(f'def containsDelegatesSwapped : Bool := {b(cont_swapped)}')
    L.append('')
    L.append('/-- The classes `Not` dispatches on, in source order. -/')
    L.append('inductive NotCase where')
    L.append('  | resultQuantifier | entity | setOf | and | or | other')
    L.append('  deriving DecidableEq, Repr')
    L.append('')
    names = {'ResultQuantifier': '.resultQuantifier', 'Entity': '.entity', 'SetOf': '.setOf', 'AND': '.and',
             'OR': '.or'}
    L.append('def notDispatch : List NotCase := [' + ', '.join(names[o] for o in order) + ', .other]')
    L.append('')
    L.append('/-- `Not` on an `AND` builds this operator over the negated operands (`true` = ElseIf), and on')
    L.append('    an `OR` builds this one (`true` = AND). -/')
    L.append(f'def notAndBuildsElseIf : Bool := {b(and_elseif)}')
    L.append(f'def notOrBuildsAnd : Bool := {b(or_and)}')
    L.append('/-- `Not` on any other node toggles its invert flag (`operand._invert_ = not operand._invert_`). -/')
    L.append(f'def notTogglesFlag : Bool := {b(toggles)}')
    L.append('')
    L.append('/-- `utils.is_iterable`: types that have `__iter__` but are not treated as iterables. -/')
    L.append('def notIterableTypes : List String := [' + ', '.join(f'"{e}"' for e in excl) + ']')
    L.append('')
    L.append('/-- cache_data.py: default of the caching switch. -/')
    L.append(f'def cachingDefault : Bool := {b(cdef)}')
    L.append('')
    ops, helper_ok = variable_operators(sym)
    L.append('/-- Every dunder method defined on `CanBehaveLikeAVariable` (the symbolic operators of a variable: attribute')
    L.append('    access, indexing, calling, comparisons, membership) and whether its body BEGINS with the symbolic-mode guard')
    L.append('    (`if not in_symbolic_mode(): raise AttributeError` or `self._if_not_in_symbolic_mode_raise_error_(..)`). -/')
    L.append('def varOperators : List (String × Bool) := [' + ', '.join(f'("{n}", {b(g)})' for n, g in ops) + ']')
    L.append('/-- `_if_not_in_symbolic_mode_raise_error_` is `if not in_symbolic_mode(): raise AttributeError(..)`. -/')
    L.append(f'def guardHelperRaises : Bool := {b(helper_ok)}')
    L.append('')
    fl = entry_points(sym)
    L.append('/-- How the entry points `An.evaluate` / `The.evaluate`, the guard `symbolic_mode` and the reset are written')
    L.append('    (see `harness/translate.py: entry_points` for what each flag means; all `true` on the pinned tree). -/')
    for k_, name in (('an_mode_off', 'anAdvancesWithModeOff'), ('an_yield_outside', 'anYieldsOutsideTheGuard'),
                     ('the_mode_off', 'theComputesWithModeOff'), ('restores_in_finally', 'modeRestoredInFinally'),
                     ('hides_contexts', 'evaluationHidesContexts'), ('an_resets_finally', 'anResetsInFinally'),
                     ('the_resets_finally', 'theResetsInFinally'), ('an_resets_at_start', 'anResetsAtStartWhenRunning'),
                     ('reset_reaches_domains', 'resetReachesDomainSources')):
        L.append(f'def {name} : Bool := {b(fl[k_])}')
    L.append('')
    L.append('/-- cache_data.py: `IndexedCache.check` begins with `if not self.keys: return False`. -/')
    L.append(f'def cacheCheckGuardsKeyless : Bool := {b(cache_check_guards_keyless(cache))}')
    L.append('')
    L.append('/-- symbolic.py: in `_required_variables_from_child_` the RIGHT operand of a comparison requires the variables of the')
    L.append('    left operand (repair R36). -/')
    L.append(f'def comparatorRightRequiresLeft : Bool := {b(comparator_right_requires_left(sym))}')
    L.append('')
    L.append('end Eql.Gen')
    return '\n'.join(L) + '\n'


def regenerate():
    text = render()
    old = open(OUT).read() if os.path.exists(OUT) else None
    if old != text:
        os.makedirs(os.path.dirname(OUT), exist_ok=True)
        with open(OUT, 'w') as fh:
            fh.write(text)
    return text


if __name__ == '__main__':
    print(regenerate())
