"""
Property handlers for the query-shaped properties.
Each handler: run(report, rng, tier, findings) -> (proof modules, assumptions)
"""
import random
from . import gen, surface
from .qcheck import run_query_cases, canon, all_selected, empty_unselected_domain
from .surface import cond_size, cond_ops, cond_vars


def n_cases(tier, quick, thorough):
    # quick is sized to finish in well under a minute on 16 cores; thorough is ~12x deeper
    return int(quick * 2.5) if tier == 'quick' else thorough * 3


def sample_of(case):
    return surface.case_sexp(case)[:1500]


def note_distribution(report, case):
    for c in case.get('cond') or []:
        cond_ops(c, report.dist)
        report.count('cond_size_%d' % min(cond_size(c), 12))
    report.count('n_vars_%d' % len(case['vars']))
    report.count('n_objs_%d' % len(case['objs']))


def has_closed_leaf(case):
    """Some leaf of the condition mentions no variable (a comparison / membership test over constants)."""
    def walk(c):
        if c[0] in ('and', 'or', 'band', 'bor'):
            return any(walk(x) for x in c[1:])
        if c[0] == 'not':
            return walk(c[1])
        if c[0] == 'sub':
            return any(walk(x) for x in c[2:])
        return not cond_vars(c)
    return any(walk(c) for c in (case.get('cond') or []))


class QueryJudge:
    """Generic judge: implementation == specification on the property's observable, under every
    configuration; model == implementation (Tier-A correspondence)."""

    def __init__(self, report, findings, pid, ordered=False, nontrivial=None, use_c05=True, tag='',
                 check_tree=False, expected=None):
        self.report, self.pid, self.ordered = report, pid, ordered
        self.findings = {f['id']: f for f in findings.get('findings', []) if f.get('status', 'open') == 'open'}
        self.nontrivial = nontrivial
        self.use_c05 = use_c05
        self.tag = tag
        self.check_tree = check_tree
        self.expected = expected

    attributed = None      # (case id, configuration) pairs whose deviation was attributed to a known cache finding

    def known(self, fid):
        if self.attributed is None:
            self.attributed = set()
        return self._known(fid)

    def _known(self, fid):
        f = self.findings.get(fid)
        if f is None:
            return False
        self.report.known[fid] = self.report.known.get(fid, 0) + 1
        self.report.known_text[fid] = f.get('what', '')
        return True

    def violation(self, what, case, **kw):
        payload = {'what': what, 'case': case, 'case_sexp': surface.case_sexp(case)}
        payload.update(kw)
        self.report.violations.append((what, payload))

    def __call__(self, case, res, drv):
        rep = self.report
        note_distribution(rep, case)
        spec = res['spec']
        want = canon(spec, case, self.ordered)
        model = drv['model']
        if model[0] == 'rows':
            model_obs = canon(model[1], case, self.ordered)
        else:
            model_obs = model
        if self.expected is not None:
            want = self.expected(case, res)
        if self.check_tree and 'tree' in res and res['tree'] != drv['tree']:
            # Tier A for the construction properties: the tree the library built vs the model's `build`
            rep.corr_disagreements.append({'case': surface.case_sexp(case), 'model_tree': drv['tree'],
                                           'impl_tree': res['tree']})
            rep.count('tree_mismatch')
        if self.nontrivial is None or self.nontrivial(case, res):
            rep.nontrivial.add(surface.case_sexp({**case, 'id': 'x'}))
        rep.add_sample(sample_of(case))
        emptydom = empty_unselected_domain(case, res)
        if emptydom:
            rep.count('empty_unselected_domain')
        # -- model vs specification: what the theorems state; outside their hypotheses only reported
        model_eq_spec = (model_obs == want)
        if not model_eq_spec:
            rep.count('model_ne_spec')
            if not emptydom:
                # inside the theorems' hypotheses the model must meet the spec: otherwise the model (or a
                # theorem's statement) is wrong - machinery trouble, not a verdict about the implementation
                rep.notes.append(f"model!=spec inside hypotheses on {case['id']}: {surface.case_sexp(case)[:400]}")
                rep.count('MODEL_NE_SPEC_INSIDE_HYPOTHESES')
        l2 = drv.get('l2') if (case.get('quant') != 'the' and not case.get('forall') and not case.get('foralls') and not case.get('pform')) else None
        if l2 is not None and has_closed_leaf(case):
            # a leaf over constants only has a result cache WITHOUT keys, which the L2 machine does not model (its caches are
            # those of leaves that mention a variable): rows are compared with the specification only
            l2 = None
            rep.count('l2_skipped_closed_leaf')
        for cfg_name, cfg in res['impl'].items():
            rep.count('cache_hits_' + cfg_name, cfg['hits'])
            if cfg.get('data_modified'):
                # C04's last clause, checked by every query check: evaluation never modifies the user's objects
                self.violation(f"evaluation modified the user's objects (attribute values or list contents; caching {cfg_name})",
                               case, expected=want)
            for ev, out in enumerate(cfg['outs']):
                rep.traces += 1
                # Tier A for the stateful layer: the L2 machine (caches + duplicate tracking) must give the
                # implementation's rows under the same configuration and evaluation number
                m2 = None
                # (a preliminary evaluation that ran to the end counts as an evaluation of the machine)
                lev = ev + (1 if cfg.get('pre_completed') else 0)
                if l2 is not None and out[0] == 'rows' and lev < 3:
                    m2 = l2['on' if cfg_name.startswith('on') else 'off'][lev]
                    if sorted(out[1]) == sorted(m2):
                        rep.count('l2_exact')
                    elif sorted(set(out[1])) == sorted(set(m2)):
                        rep.count('l2_multiplicity_drift')      # same rows, other multiplicities: reported only
                    else:
                        rep.count('l2_rows_differ')
                        if canon(out[1], case, self.ordered) == want:
                            # the implementation is right and the machine is not: the machine misrepresents it - unless
                            # the case lies in the machine's documented gap (several variables, cache on, a literal inside a
                            # non-first operand of an and_/or_: the implementation keeps literal ids among the right-cache
                            # keys, the machine does not, so the machine can hit - and run into C05-F1 - where the
                            # implementation cannot); counted, not a disagreement
                            if cfg_name.startswith('on') and len(case['vars']) > 1 and literal_in_a_right_operand(case):
                                rep.count('l2_gap_literal_keys')
                            else:
                                rep.corr_disagreements.append({'case': surface.case_sexp(case), 'config': cfg_name,
                                                               'evaluation': ev + 1, 'impl': sorted(out[1]),
                                                               'l2_model': sorted(m2)})
                if out[0] == 'exc':
                    self.violation(f'implementation raised {out[1]}: {out[2]} (caching {cfg_name}, evaluation {ev + 1})',
                                   case, expected=want)
                    break
                obs = canon(out[1], case, self.ordered) if out[0] == 'rows' else out
                if obs == want:
                    if obs != model_obs and not emptydom:
                        rep.corr_disagreements.append({'case': surface.case_sexp(case), 'model': model_obs,
                                                       'impl': obs, 'config': cfg_name})
                    continue
                # implementation != specification : classify
                if emptydom and obs == model_obs and self.known('C02-F1'):
                    continue
                off_name = cfg_name.replace('on', 'off', 1)
                if cfg_name.startswith('on') and self.use_c05 and off_name in res['impl'] and \
                        all(canon(o[1], case, self.ordered) == want for o in res['impl'][off_name]['outs']
                            if o[0] == 'rows'):
                    # wrong with caching on, right with caching off: a known cache finding only if the L2 machine,
                    # which transliterates the cache code, returns exactly the implementation's rows (or, where the
                    # machine does not apply, if a cache was observed non-prefix-uniform at a lookup)
                    # (the machine keys an AND / ElseIf right cache on the right operand's VARIABLES; the implementation also
                    # keeps the ids of the operand's literals as keys - LogicalOperator.__post_init__ filters literals on
                    # the HashedValue wrapper - so where a right operand contains a literal the two may hit differently:
                    # there, inside the finding's scope, an observed non-prefix-uniform cache is what attributes it)
                    reproduced = (m2 is not None and sorted(set(out[1])) == sorted(set(m2))) or \
                                 (m2 is None and cfg['nonuniform']) or \
                                 (cfg['nonuniform'] and len(case['vars']) > 1 and literal_in_a_right_operand(case))
                    if reproduced and not mentions_flatten(case) and self.known('C05-F1'):
                        self.attributed.add((case['id'], cfg_name))
                        continue
                if cfg_name.startswith('on') and off_name in res['impl'] and f6_scope(case) and \
                        all(canon(o[1], case, self.ordered) == want for o in res['impl'][off_name]['outs']
                            if o[0] == 'rows') and self.known('C05-F6'):
                    # known finding C05-F6 (wrong with the cache on, right with it off, inside the scope below)
                    self.attributed.add((case['id'], cfg_name))
                    continue
                if cfg_name.startswith('on') and off_name in res['impl'] and mentions_flatten(case) and \
                        all(canon(o[1], case, self.ordered) == want for o in res['impl'][off_name]['outs']
                            if o[0] == 'rows') and \
                        (m2 is None or sorted(set(out[1])) == sorted(set(m2))) and self.known('C05-F2'):
                    continue
                self.violation(f'rows differ from the specification (caching {cfg_name}, evaluation {ev + 1})',
                               case, expected=want, observed=obs, model=model_obs,
                               cache_nonuniform=cfg['nonuniform'])
                break


def literal_in_a_right_operand(case):
    """Some and_/or_ node of the condition has a literal inside an operand other than its first one (conditions passed
    separately to entity()/set_of() are chained by and_)."""
    case = case.get('explicit', case)

    def has_lit_t(t):
        if t[0] == 'lit':
            return True
        return any(has_lit_t(y) for y in t[1:] if isinstance(y, tuple) and y and isinstance(y[0], str))

    def has_lit(c):
        k = c[0]
        if k in ('and', 'or', 'not', 'sub'):
            return any(has_lit(y) for y in c[1:] if isinstance(y, tuple) and y and isinstance(y[0], str) and y[0] != 'var') or \
                any(has_lit_t(t) for t in (c[1] if k == 'sub' else ()))
        return any(has_lit_t(t) for t in c[1:] if isinstance(t, tuple) and t and isinstance(t[0], str))

    def walk(c):
        k = c[0]
        if k in ('and', 'or'):
            if any(has_lit(y) for y in c[2:]):
                return True
            return any(walk(y) for y in c[1:])
        if k == 'not':
            return walk(c[1])
        if k == 'sub':
            return walk(('and',) + tuple(c[2:])) if len(c) > 3 else any(walk(y) for y in c[2:])
        return False
    conds = list(case.get('cond') or [])
    if len(conds) > 1 and any(has_lit(y) for y in conds[1:]):
        return True
    return any(walk(c) for c in conds)


def f6_scope(case):
    """Scope of known finding C05-F6: a conjunction (and_, or the conditions passed separately to entity()/set_of()) has
    an operand R that contains a disjunction and mentions a NON-SELECTED variable v, and an earlier operand L that contains
    a disjunction one side of which mentions v while the other does not (some outputs of L leave v unbound, others bind
    it): R is first evaluated with v unbound - its duplicate suppression drops outputs from what its parent caches while
    the coverage check of the empty binding latches "everything seen" - and is later asked with v bound."""
    case = case.get('explicit', case)
    sel = set()
    for t in case['sel']:
        sel |= surface.term_vars(t)

    def has_or(c):
        return c[0] == 'or' or (c[0] in ('and', 'not', 'sub') and any(has_or(y) for y in (c[2:] if c[0] == 'sub' else c[1:])))

    def split_or(c, v):
        if c[0] == 'or':
            sides = [v in cond_vars(y) for y in c[1:]]
            if any(sides) and not all(sides):
                return True
        if c[0] in ('and', 'or', 'not'):
            return any(split_or(y, v) for y in c[1:])
        if c[0] == 'sub':
            return any(split_or(y, v) for y in c[2:])
        return False

    def chain_ok(ops):
        for j in range(1, len(ops)):
            R = ops[j]
            if not has_or(R):
                continue
            for v in cond_vars(R) - sel:
                if any(split_or(ops[i], v) for i in range(j)):
                    return True
        return False

    def walk(c):
        if c[0] == 'and' and chain_ok(list(c[1:])):
            return True
        if c[0] in ('and', 'or', 'not'):
            return any(walk(y) for y in c[1:])
        if c[0] == 'sub':
            return chain_ok(list(c[2:])) or any(walk(y) for y in c[2:])
        return False
    conds = list(case.get('cond') or [])
    return chain_ok(conds) or any(walk(c) for c in conds)


def mentions_flatten(case):
    case = case.get('explicit', case)          # operand / predicate-form cases: look at the explicit twin
    return any(surface.cond_flats(c) for c in (case.get('cond') or []))


def nontrivial_filter(case, res):
    """The condition is neither constantly true nor constantly false on its dataset."""
    total = 1
    for v, n in res['dom_sizes'].items():
        total *= n
    return 0 < len(set(res['spec'])) and (len(res['spec']) < total or total == 0) and total > 1


# ------------------------------------------------------------------------------------------- C01

def c01(report, rng, tier, findings):
    n = n_cases(tier, 320, 4000)
    cfg = gen.Cfg(n_vars=(1, 1), n_objs=(2, 6), depth=3 if tier == 'quick' else 5, dup_domain=0.0, closed=0.05)
    cases = [gen.gen_case(rng, cfg, f'c{i}') for i in range(n)]
    for c in cases:
        if rng.random() < 0.1:
            gen.apply_truth_operand_template(rng, c)     # one attribute as a bare condition AND as a comparison operand
            report.count('one_attribute_as_condition_and_as_operand')
    report.rule = ("random single-variable queries: 0-6 distinct objects over a small class hierarchy, condition trees "
                   f"of depth <= {cfg.depth} over the six comparisons (literal on either side), membership both ways, "
                   "attribute/index/method-call chains, boolean attributes and calls, function and class predicates, "
                   "and_/or_/not_; result compared as a SEQUENCE with the domain filter, caching on and off, first and "
                   "second evaluation; non-trivial = condition neither constantly true nor false on its dataset")
    judge = QueryJudge(report, findings, 'C01', ordered=True, nontrivial=nontrivial_filter)
    run_query_cases(report, cases, {'caching': (False, True), 'evals': 2, 'ordered': True}, judge)
    return ['EqlModel.Props.C01', 'EqlModel.Props.C03'], [
        "every leaf of the condition mentions the variable (closed leaves are covered by correspondence only)",
        "primitives do not raise on the dataset (NoRaise)", "distinct objects in the domain"]


# ------------------------------------------------------------------------------------------- C02

def c02(report, rng, tier, findings):
    n = n_cases(tier, 700, 6000)
    cases = []
    for i in range(n):
        nv = rng.choice((2, 2, 3, 3, 4)) if tier != 'quick' else rng.choice((2, 2, 3))
        cfg = gen.Cfg(n_vars=(nv, nv), n_objs=(2, 4 if nv <= 3 else 3), depth=2 if nv >= 3 else 3,
                      select_terms=0.2, preds=True, select_all=0.35, single_top=0.45)
        case = gen.gen_case(rng, cfg, f'c{i}')
        if rng.random() < 0.2:
            gen.apply_or_template(rng, cfg, case)
            report.count('template_disjunction_binds_unselected_variable')
        elif nv >= 3 and i % 2 == 1:
            gen.apply_three_var_template(random.Random(i * 17 + 3), cfg, case)
            report.count('template_three_variables')
        cases.append(case)
    report.rule = ("random queries over 2-4 variables (30% sharing one domain list: self-joins), conditions over random "
                   "variable subsets, 1..n variables selected in random order, attribute expressions among the selected; "
                   "rows compared as a set (as a multiset when every variable is selected) with the brute-force product "
                   "filter, caching on and off, two evaluations; non-trivial = condition neither constantly true nor false")
    judge = QueryJudge(report, findings, 'C02', nontrivial=nontrivial_filter)
    run_query_cases(report, cases, {'caching': (False, True), 'evals': 2}, judge)
    # second stream: ONE comparison object (c = a.f == b.g) used at TWO places of one condition tree; evaluated with the
    # object shared and with two separate objects - a deviation of the shared run only is known finding C02-F2
    from .props_q2 import shared_twin_stream
    shared = []
    for i in range(max(20, n // 12)):
        cfg = gen.Cfg(n_vars=(2, 2), n_objs=(2, 4), depth=1, empty_domain=0.0, preds=False)
        base = gen.gen_case(rng, cfg, f'k{i}')
        a, b = [v[0] for v in base['vars']]
        c = ('cmp', rng.choice(('eq', 'le', 'ne')), ('attr', rng.choice('ab'), ('var', a)), ('attr', rng.choice('ab'), ('var', b)))
        pa = gen.CondGen(rng, cfg, [a]).atom()
        pb = gen.CondGen(rng, cfg, [b]).atom()
        cond = rng.choice([('or', ('and', c, pa), ('and', c, pb)), ('or', ('and', pa, c), ('and', pb, c)),
                           ('and', ('or', c, pa), ('or', c, pb)), ('or', ('and', c, pa), c)])
        base.update({'sel': [('var', a), ('var', b)], 'entity': False, 'cond': [cond], 'quant': 'an'})
        shared.append(base)
    shared_twin_stream(report, findings, shared, 'share_conds', 'C02-F2', 'one_comparison_object_at_two_places_of_one_condition',
                       'one comparison object used at two places of one condition tree',
                       caching=(False,))      # (cache off: with the cache on, two-variable disjunctions are C05-F1's territory)
    return ['EqlModel.Props.C02'], [
        "every variable that is not selected has a non-empty domain (else known finding C02-F1)",
        "primitives do not raise on the dataset", "distinct objects in each domain",
        "caching on: claimed for runs whose caches stay prefix-uniform (else known finding C05-F1)",
        "a condition object stands at ONE place of the condition tree (one comparison object reused at two places: known finding C02-F2)"]
