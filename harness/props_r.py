"""
Handlers for rule inference (C11) and rule trees (C12).
"""
import itertools
import random

from . import gen, surface
from .common import pmap, run_driver, HarnessError
from .surface import sexp


def n_cases(tier, quick, thorough):
    # quick is sized to finish in well under a minute on 16 cores; thorough is ~12x deeper
    return int(quick * 2.5) if tier == 'quick' else thorough * 3


# ---------------------------------------------------------------------------------- rule cases
# rule = {'tag': k, 'cond': [scond...], 'kids': [(kind, rule), ...]}  (kids in written order)
# case = {id, classes, objs, vars, args [term...], rule}

def rule_sexp(case):
    case = case.get('explicit', case)       # heads with nested constructor arguments carry their explicit twin

    def kid(kind, r):
        return (kind, r['tag'], ('cond',) + tuple(r['cond']), ('kids',) + tuple(kid(k, c) for k, c in r['kids']))
    r = case['rule']
    parts = ['rule', case['id'],
             ('classes',) + tuple(case['classes']),
             ('objs',) + tuple((i, c, tuple((k, v) for k, v in attrs.items())) for i, c, attrs in case['objs']),
             ('vars',) + tuple((vid, cls) + tuple(raw) for vid, cls, raw in case['vars']),
             ('args',) + tuple(case['args']),
             ('base', r['tag']) + tuple(r['cond']),
             ('kids',) + tuple(kid(k, c) for k, c in r['kids'])]
    nargs = node_args(case)
    if nargs:
        parts.append(('nargs',) + tuple((tag,) + tuple(a) for tag, a in sorted(nargs.items())))
    return sexp(tuple(parts))


def node_args(case):
    """{tag: argument expressions} of the nodes that carry their own (branches that introduce variables)."""
    out = {}

    def go(n):
        if 'args' in n:
            out[n['tag']] = n['args']
        for _, ch in n['kids']:
            go(ch)
    go(case['rule'])
    return out


def rule_shape(r):
    return '(' + ''.join(k[0] + rule_shape(c) for k, c in r['kids']) + ')'


class RuleOracle(surface.Oracle):
    """Recursive ripple-down-rules reference interpreter on the surface program."""

    def cond_vars(self, node):
        return sorted(set().union(*[surface.cond_vars(c) for c in node['cond']]))

    def exts(self, node, asg):
        """The extensions of `asg` by the variables the node's conditions introduce that satisfy them."""
        new = [v for v in self.cond_vars(node) if v not in asg]
        out = []
        for combo in itertools.product(*[self.dom(v) for v in new]):
            a = dict(asg)
            a.update(zip(new, combo))
            if all(self.holds(c, a) for c in node['cond']):
                out.append(a)
        return out

    def fire(self, node, asg):
        """Ripple-down rules over partial bindings: [(tag, binding)]."""
        exts = self.exts(node, asg)
        if exts:
            out = []
            for a in exts:
                for kind, ch in node['kids']:
                    if kind == 'ref':
                        x = self.fire(ch, a)
                        if x:
                            out.extend(x)
                            break
                else:
                    out.append((node['tag'], a))
            return out
        for kind, ch in node['kids']:
            if kind == 'alt':
                x = self.fire(ch, asg)
                if x:
                    return x
        return []

    def rule_rows(self):
        case = self.case
        nargs = node_args(case)
        # base variables: those of the base conditions and of the default argument expressions (a rule head may
        # mention variables its body leaves unconstrained)
        base = set(self.cond_vars(case['rule'])).union(*[surface.term_vars(t) for t in case['args']])
        vids = [v[0] for v in case['vars'] if v[0] in base]
        out = []
        for combo in itertools.product(*[self.dom(v) for v in vids]):
            asg = dict(zip(vids, combo))
            if all(self.holds(c, asg) for c in case['rule']['cond']):
                hits = self.fire(case['rule'], asg)
            else:
                hits = []
                for kind, ch in case['rule']['kids']:
                    if kind == 'alt':
                        hits = self.fire(ch, asg)
                        if hits:
                            break
            for tag, a in hits:
                out.append('%d:%s' % (tag, surface.render_row([self.term_val(t, a) for t in nargs.get(tag, case['args'])])))
        return out



def rule_impl(job):
    """Build the rule tree on the real library with real `with` blocks and evaluate it."""
    case, opts = job
    from dataclasses import dataclass
    from . import impl
    from entity_query_language import symbol, let, infer, entity, symbolic_mode, rule_mode
    from entity_query_language.rule import refinement, alternative
    from entity_query_language.conclusion import Add
    from entity_query_language.cache_data import enable_caching, disable_caching
    from entity_query_language.symbolic import Variable
    res = {'id': case['id'], 'impl': {}}
    try:
        res['spec'] = RuleOracle(case.get('explicit', case)).rule_rows()
    except Exception as e:
        res['spec_exc'] = f'{type(e).__name__}: {e}'
        return res
    import contextlib
    for caching, ambient in [(c, a) for c in opts.get('caching', (False, True)) for a in opts.get('ambients', (None,))]:
        impl.reset_library_state()
        (enable_caching if caching else disable_caching)()
        key = ('on' if caching else 'off') + (('/' + ambient) if ambient else '')
        held = []
        try:
            b = impl.Built(case)

            falsy_head = case.get('falsy_head')

            @symbol
            @dataclass(eq=False)
            class Vw:
                tag: int = -1
                f0: object = None
                f1: object = None
                f2: object = None
                # case['falsy_head']: the constructed class is FALSY as an object (a container-like view with no
                # members, or an explicit __bool__): an inferred instance is a value, not a condition
                if falsy_head == 'len':
                    def __len__(self):
                        return 0
                elif falsy_head == 'bool':
                    def __bool__(self):
                        return False
            nargs_ = node_args(case)

            def conclusion(tag):
                # keyword order matters to the construction: the constant tag is written first or last
                kw = {} if case.get('tag_last') else {'tag': tag}
                for i, t in enumerate(nargs_.get(tag, case['args'])):
                    kw[f'f{i}'] = b.term(t)
                kw['tag'] = tag
                return Vw(**kw)

            if case.get('decoy_head'):
                # ANOTHER rule written earlier in the same process whose head gives the same fields constants that are
                # EQUAL to this rule's constants but different values (0 / False, 1 / True / 1.0): nothing of it may
                # show in this rule's instances
                twin_ = {0: False, 1: True, 2: 2.0}
                with rule_mode():
                    dkw = {}
                    for i, t in enumerate(nargs_.get(case['rule']['tag'], case['args'])):
                        if t[0] == 'lit' and t[1][0] in ('i', 'b'):
                            v_ = b.decode(t[1])
                            dkw[f'f{i}'] = twin_.get(v_, v_) if type(v_) is int else int(v_)
                    if dkw:
                        infer(entity(Vw(tag=True if case['rule']['tag'] == 1 else float(case['rule']['tag']), **dkw)))
            if case.get('direct_head'):
                # C11's own form: infer(entity(T(f1=e1, ...), conditions)) written in rule mode
                with rule_mode():
                    b.declare_vars()
                    base_conds = [b.cond(c) for c in case['rule']['cond']]
                    if case.get('nested_body') is not None:
                        # the head's nested predicate-form variable C(ref=e) ALSO stands as a condition of the body: the
                        # same matches (the existing instances of C whose field equals e), nothing more
                        base_conds.append(b.term(case['nested_body']))
                    q = infer(entity(conclusion(case['rule']['tag']), *base_conds))
            else:
                with symbolic_mode():
                    b.declare_vars()
                    views = let(Vw)
                    base_conds = [b.cond(c) for c in case['rule']['cond']]
                    q = infer(entity(views, *base_conds))

            def build(node):
                Add(views, conclusion(node['tag']))
                for kind, ch in node['kids']:
                    cm = refinement if kind == 'ref' else alternative
                    with cm(*[b.cond(c) for c in ch['cond']]):
                        build(ch)
            if not case.get('direct_head'):
                with rule_mode(q):
                    build(case['rule'])
                try:
                    res['tree'] = show_rule_tree(b, q)
                except Exception as e:
                    res['tree'] = f'(?tree {type(e).__name__}: {e})'
            outs = []
            ctx = {None: contextlib.nullcontext, 'query': symbolic_mode, 'rule': rule_mode,
                   'query+q': lambda: symbolic_mode(q), 'rule+q': lambda: rule_mode(q)}[ambient]
            n_before = sum(1 for _ in _registered(Variable, Vw))
            if case.get('pre_take') is not None:
                # an abandoned evaluation of the same rule first (must not change what follows)
                with ctx():
                    it = iter(q.evaluate())
                    try:
                        for _ in range(case['pre_take']):
                            next(it)
                    except StopIteration:
                        pass
                    if impl.suspended(case):
                        held.append(it)          # left suspended (not closed) while the evaluations that follow run
                    else:
                        it.close()
            built = []

            def render(v):
                if type(v) is not Vw:
                    return 'NOT-AN-INSTANCE:' + type(v).__name__
                args_v = nargs_.get(v.tag, case['args'])
                vals = [getattr(v, f'f{i}') for i in range(len(args_v))]
                for a_, x_ in zip(args_v, vals):
                    # a constant list argument: the instance holds the very object the rule was written with
                    if a_[0] == 'lit' and a_[1][0] == 'l' and x_ is not getattr(b, 'list_constants', {}).get(repr(a_[1])):
                        return 'CONSTANT-ARGUMENT-COPIED:%d' % v.tag
                return '%d:%s' % (v.tag, surface.render_row([b.encode(x) for x in vals]))
            for _ in range(opts.get('evals', 1)):
                known_ = {id(o) for o in _instances(Variable, Vw)}
                with ctx():
                    made = list(q.evaluate())
                outs.append([render(v) for v in made])
                if len({id(v) for v in made}) != len(made) or any(id(v) in known_ for v in made):
                    # one NEW instance per satisfying binding: the same object yielded twice, or an instance that existed
                    # before this evaluation
                    outs[-1].append('SAME-INSTANCE-YIELDED-TWICE-OR-NOT-NEW')
                # every instance CONSTRUCTED by this evaluation (registered with the class), yielded or not
                built.append([render(o) for o in _instances(Variable, Vw) if id(o) not in known_])
            while held:
                held.pop().close()   # closing an abandoned iterator must not raise (an exception here is reported)
            res['impl'][key] = {'outs': outs, 'built': built}
        except Exception as e:
            res['impl'][key] = {'exc': f'{type(e).__name__}: {str(e)[:200]}'}
        finally:
            for it_ in held:
                try:
                    it_.close()
                except Exception:
                    pass
            enable_caching()
            impl.reset_library_state()
    return res


def _registered(Variable, cls):
    c = Variable._cache_.get(cls)
    return list(c.flat_cache) if c is not None else []


def _instances(Variable, cls):
    out = []
    for e in _registered(Variable, cls):
        v = e[1] if isinstance(e, tuple) else e
        out.append(getattr(v, 'value', v))
    return out


def show_rule_tree(b, q):
    from entity_query_language.conclusion_selector import ExceptIf, Alternative, Next

    def go(e):
        if isinstance(e, (ExceptIf, Alternative, Next)):
            return f"({type(e).__name__} {go(e.left)} {go(e.right)})"
        tags = sorted(c.value._child_vars_['tag']._domain_source_.domain[0] for c in e._conclusion_)
        return f"(leaf {tags[0] if tags else '?'} {b.show_cond(e)})"
    return go(q._child_._child_)


def parse_rule_line(line):
    if line.startswith('ERR'):
        raise HarnessError('driver: ' + line)
    parts = line.split('\t')
    if len(parts) != 7:
        raise HarnessError('driver: ' + line)
    return {'id': parts[0], 'model': [x for x in parts[2].split(';') if x],
            'lspec': [x for x in parts[4].split(';') if x], 'tree': parts[6]}


# -------------------------------------------------------------------------------- generators

def closed_cond(rng, g, var_ids, depth=1, disj=False):
    """A branch condition that mentions every variable of the rule (branch-closed)."""
    parts = []
    for v in var_ids:
        g.var_ids = [v]
        parts.append(g.cond(rng.randint(0, depth)) if disj else g.atom())
    g.var_ids = var_ids
    if len(var_ids) > 1 and rng.random() < 0.5:
        g.var_ids = var_ids
        parts.append(('cmp', rng.choice(('eq', 'ne', 'le')), ('attr', 'a', ('var', var_ids[0])),
                      ('attr', 'a', ('var', var_ids[1]))))
    return parts


def gen_rule(rng, g, var_ids, depth, kinds, counter, bound_ctx=False):
    """`bound_ctx`: the node is only reached under a branch whose (closed) condition held, so every variable is bound
    there and its own condition may mention any non-empty subset of the variables; the root and the alternatives on
    the root's alternative chain are reached with unbound variables and stay closed."""
    def one(vs):
        parts = closed_cond(rng, g, vs)
        g.var_ids = var_ids
        return parts
    vs = var_ids
    if bound_ctx and len(var_ids) > 1 and rng.random() < 0.6:
        vs = rng.sample(var_ids, rng.randint(1, len(var_ids) - 1))
    cond = one(vs)
    if rng.random() < 0.25:
        # the branch condition is a top-level disjunction of two conjunctions (over the same variables)
        conj = lambda ps: ps[0] if len(ps) == 1 else ('and',) + tuple(ps)    # noqa: E731
        cond = [('or', conj(cond), conj(one(vs)))]
    node = {'tag': counter[0], 'cond': cond, 'kids': []}
    counter[0] += 1
    if depth > 0:
        # up to three blocks per node: a refinement followed by two alternatives (or any other order) must occur
        for _ in range(rng.choice((0, 1, 1, 2, 2, 3) if depth <= 2 else (0, 1, 1, 2))):
            kind = rng.choice(kinds)
            node['kids'].append((kind, gen_rule(rng, g, var_ids, depth - 1, kinds, counter,
                                                bound_ctx=True if kind == 'ref' else bound_ctx)))
    return node


def add_widening_refinement(rng, g, rule, x, z, depth=2):
    """Insert ONE refinement that introduces a further variable `z` through a join condition into a rule tree over the
    single base variable `x`; its conclusion, and every conclusion below it, is made of (x, z), the others of x only (the
    Drawer / Wardrobe shape of the library's documentation).  The block is written as the FIRST refinement of its parent,
    on a path on which every refinement is the first refinement of its parent, and holds refinements only: elsewhere the
    outputs of the widened branch (one per value of z) would pass through blocks that do not mention z, and whether
    those fire once per base match or once per value of z is left open by C12."""
    def atoms(v):
        g.var_ids = [v]
        a = g.atom()
        g.var_ids = [x]
        return a

    def eligible(node, ok=True):
        out = [node] if ok else []
        first_ref = True
        for kind, ch in node['kids']:
            if kind == 'ref':
                out += eligible(ch, ok and first_ref)
                first_ref = False
            else:
                out += eligible(ch, ok)
        return out

    def sub(d):
        cond = [atoms(rng.choice((x, z)))] + ([atoms(rng.choice((x, z)))] if rng.random() < 0.3 else [])
        node = {'tag': None, 'cond': cond, 'kids': [], 'args': [('var', x), ('var', z)]}
        if d > 0:
            for _ in range(rng.choice((0, 1, 1, 2))):
                node['kids'].append(('ref', sub(d - 1)))
        return node
    parent = rng.choice(eligible(rule))
    join = rng.choice([('cmp', 'eq', ('attr', 'ref', ('var', z)), ('var', x)),
                       ('cmp', 'eq', ('var', x), ('attr', 'ref', ('var', z))),
                       ('cmp', rng.choice(('eq', 'le', 'ne')), ('attr', 'a', ('var', z)), ('attr', 'a', ('var', x))),
                       ('cmp', rng.choice(('eq', 'ge')), ('attr', 'a', ('var', x)), ('attr', 'b', ('var', z)))])
    cond = [join] + ([atoms(z)] if rng.random() < 0.4 else []) + ([atoms(x)] if rng.random() < 0.3 else [])
    rng.shuffle(cond)
    w = {'tag': None, 'cond': cond, 'kids': [], 'args': [('var', x), ('var', z)]}
    for _ in range(rng.choice((0, 0, 1, 2)) if depth > 0 else 0):
        w['kids'].append(('ref', sub(depth - 1)))
    refs = [i for i, (k, _) in enumerate(parent['kids']) if k == 'ref']
    parent['kids'].insert(rng.randint(0, refs[0]) if refs else rng.randint(0, len(parent['kids'])), ('ref', w))
    # tags in written (pre-)order, like the other trees
    counter = [0]

    def renumber(node):
        node['tag'] = counter[0]
        counter[0] += 1
        for _, ch in node['kids']:
            renumber(ch)
    renumber(rule)
    return rule


def has_widening(rule):
    return 'args' in rule or any(has_widening(ch) for _, ch in rule['kids'])


def base_dataset(rng, nv, n_objs=(2, 4)):
    cfg = gen.Cfg(n_vars=(nv, nv), n_objs=n_objs, depth=1, preds=False, calls=True, membership=False,
                  negation=True, subclasses=0.0, empty_domain=0.0, int_range=(0, 2), share_domain=0.3)
    case = gen.gen_case(rng, cfg, 'x')
    return cfg, case


def judge_rules(report, cases, results, lines, findings, pid, nontrivial, check_tree=True):
    fnd = {f['id']: f for f in findings.get('findings', []) if f.get('status', 'open') == 'open'}
    for case, res, line in zip(cases, results, lines):
        if 'spec_exc' in res:
            report.count('skipped_oracle_raises')
            continue
        drv = parse_rule_line(line)
        report.evaluations += 1
        report.count('shape_' + rule_shape(case['rule']))
        report.count('n_vars_%d' % len(case['vars']))
        if sorted(drv['lspec']) != sorted(res['spec']):
            raise HarnessError(f"Python RDR reference and Lean reference disagree on {case['id']}: {res['spec']} vs "
                               f"{drv['lspec']} :: {rule_sexp(case)}")
        want = sorted(res['spec'])
        if nontrivial(case, res):
            report.nontrivial.add(rule_sexp({**case, 'id': 'x'}))
        report.add_sample(rule_sexp(case)[:1500])
        model = sorted(drv['model'])
        if model != want:
            report.count('model_ne_spec')
            report.notes.append(f"model != RDR reference on {case['id']} shape {rule_shape(case['rule'])}")
        if check_tree and res.get('tree') is not None and res['tree'] != drv['tree']:
            report.corr_disagreements.append({'case': rule_sexp(case), 'model_tree': drv['tree'], 'impl_tree': res['tree']})
            report.count('tree_mismatch')
        for key, cfg in res['impl'].items():
            if 'exc' in cfg:
                report.violations.append((f'implementation raised {cfg["exc"]} ({key})',
                                          {'what': f'implementation raised {cfg["exc"]}', 'case': case,
                                           'case_sexp': rule_sexp(case), 'config': key}))
                continue
            for ev, rows in enumerate(cfg['outs']):
                report.traces += 1
                obs = sorted(rows)
                if obs == want:
                    if obs != model:
                        report.corr_disagreements.append({'case': rule_sexp(case), 'model': model, 'impl': obs})
                    # the instances CONSTRUCTED by this evaluation (yielded or not): none that the reference does not
                    # prescribe, none more often than prescribed (fewer is possible: instances re-used from a cache)
                    built = (cfg.get('built') or [None] * (ev + 1))[ev]
                    if built is not None:
                        import collections
                        cb, cw = collections.Counter(built), collections.Counter(want)
                        extra = sorted(k for k in cb if cb[k] > cw[k])
                        if not extra and key.startswith('off') and cb != cw:
                            # without the result cache nothing can be re-used: exactly one construction per instance
                            what = (f'fewer instances were constructed than the reference prescribes ({key}, evaluation '
                                    f'{ev + 1}): an instance was re-used for another binding')
                            report.violations.append((what, {'what': what, 'case': case, 'case_sexp': rule_sexp(case),
                                                             'expected': want, 'observed': obs, 'constructed': sorted(built),
                                                             'shape': rule_shape(case['rule'])}))
                            break
                        if extra:
                            what = (f'instances were constructed for conclusions the ripple-down-rules reference does not '
                                    f'prescribe ({key}, evaluation {ev + 1})')
                            report.violations.append((what, {'what': what, 'case': case, 'case_sexp': rule_sexp(case),
                                                             'expected': want, 'observed': obs, 'constructed': sorted(built),
                                                             'not_prescribed': extra, 'shape': rule_shape(case['rule'])}))
                            break
                        report.count('constructed_instances_compared')
                    continue
                if key.startswith('on') and 'C05-F4' in fnd and 'a' in rule_shape(case['rule']) and \
                        all(sorted(r) == want for r in res['impl'].get(key.replace('on', 'off', 1), {'outs': []})['outs']):
                    report.known['C05-F4'] = report.known.get('C05-F4', 0) + 1
                    report.known_text['C05-F4'] = fnd['C05-F4']['what']
                    continue
                what = f'conclusions differ from the ripple-down-rules reference ({key}, evaluation {ev + 1})'
                report.violations.append((what, {'what': what, 'case': case, 'case_sexp': rule_sexp(case),
                                                 'expected': want, 'observed': obs, 'model': model,
                                                 'shape': rule_shape(case['rule'])}))
                break


# ------------------------------------------------------------------------------------------- C12

def c12(report, rng, tier, findings):
    n = n_cases(tier, 240, 3000)
    cases = []
    for i in range(n):
        nv = rng.choice((1, 2, 2))
        cfg, base = base_dataset(rng, nv, n_objs=(3, 5) if nv == 1 else (2, 4))
        ids = [v[0] for v in base['vars']]
        g = gen.CondGen(rng, cfg, ids)
        depth = rng.choice((1, 2, 2, 3)) if tier == 'quick' else rng.choice((1, 2, 3, 3))
        if rng.random() < 0.3:
            # conclusions over DIFFERENT variable sets: one refinement introduces a further variable by a join condition
            cfg1, base1 = base_dataset(rng, 1, n_objs=(3, 5))
            x = base1['vars'][0][0]
            z = x + 1
            g1 = gen.CondGen(rng, cfg1, [x])
            rule = gen_rule(rng, g1, [x], rng.choice((1, 2, 2)), ('ref', 'alt'), [0])
            rule = add_widening_refinement(rng, g1, rule, x, z)
            all_objs = [('o', j) for j, _, _ in base1['objs']]
            cases.append({'id': f'r{i}', 'classes': base1['classes'], 'objs': base1['objs'],
                          'vars': [base1['vars'][0], (z, base1['vars'][0][1], all_objs)],
                          'args': [('var', x)], 'rule': rule, 'widening': True})
            report.count('a_refinement_introduces_a_variable')
            if rng.random() < 0.3:
                cases[-1]['pre_take'] = rng.randint(1, 3)
                report.count('after_an_abandoned_evaluation')
            continue
        rule = gen_rule(rng, g, ids, depth, rng.choice((('ref',), ('alt',), ('ref', 'alt'), ('ref', 'alt'))), [0])
        cases.append({'id': f'r{i}', 'classes': base['classes'], 'objs': base['objs'], 'vars': base['vars'],
                      'args': [('var', v) for v in ids], 'rule': rule})
        if rng.random() < 0.3:
            # an evaluation of the same rule tree abandoned after 1-3 instances comes first
            cases[-1]['pre_take'] = rng.randint(1, 3)
            report.count('after_an_abandoned_evaluation')
    report.rule = ("random rule trees to depth 3 built with Add conclusions, refinement and alternative (0-3 blocks per node in any order; "
                   "refinements under the base, under refinements and under alternatives; alternatives under refinements; "
                   "chains of alternatives), conjunctive conditions (25%: a disjunction of two conjunctions) over 1-2 variables - mentioning every variable on the root's "
                   "alternative chain, any non-empty subset below a refinement (where every variable is bound) -, overlapping and exclusive "
                   "sibling conditions; the multiset of (conclusion, fields) is compared with a recursive ripple-down-rules "
                   "reference interpreter and the constructed tree with the model's construction; caching on and off, two "
                   "evaluations; non-trivial = the tree has at least two blocks and at least two different conclusions are produced")

    def nontriv(case, res):
        return len({r.split(':')[0] for r in res['spec']}) >= 2 and rule_shape(case['rule']).count('(') >= 3
    results = pmap(rule_impl, [(c, {'caching': (False, True), 'evals': 2}) for c in cases])
    lines = run_driver([rule_sexp(c) for c in cases])
    judge_rules(report, cases, results, lines, findings, 'C12', nontriv)
    # second stream, OUTSIDE the branch-closed programs: an alternative on the root's chain whose condition mentions only
    # ONE of the two variables its conclusion uses.  The reference (every assignment of the base variables; the first
    # branch that fires) is well defined; the implementation loses conclusions there (known finding C12-F1: false outputs
    # of the base are de-duplicated on the variables of the alternative's CONDITION, and a conclusion variable the path
    # did not bind is given one value only).  Cache off, one evaluation; every deviation in this stream is that finding.
    fnd = {f['id']: f for f in findings.get('findings', []) if f.get('status', 'open') == 'open'}
    nc = []
    for i in range(max(20, n // 8)):
        cfg, base = base_dataset(rng, 2, n_objs=(2, 4))
        ids = [v[0] for v in base['vars']]
        g = gen.CondGen(rng, cfg, ids)
        root = {'tag': 0, 'cond': closed_cond(rng, g, ids), 'kids': []}
        g.var_ids = [rng.choice(ids)]
        alt = {'tag': 1, 'cond': [g.atom()], 'kids': []}
        g.var_ids = ids
        root['kids'].append(('alt', alt))
        if rng.random() < 0.4:
            alt['kids'].append(('alt', {'tag': 2, 'cond': closed_cond(rng, g, ids), 'kids': []}))
        nc.append({'id': f'n{i}', 'classes': base['classes'], 'objs': base['objs'], 'vars': base['vars'],
                   'args': [('var', v) for v in ids], 'rule': root})
    res_nc = pmap(rule_impl, [(c, {'caching': (False,), 'evals': 1}) for c in nc])
    lines_nc = run_driver([rule_sexp(c) for c in nc])
    for case, res, line in zip(nc, res_nc, lines_nc):
        if 'spec_exc' in res:
            continue
        drv = parse_rule_line(line)
        if sorted(drv['lspec']) != sorted(res['spec']):
            raise HarnessError(f"Python RDR reference and Lean reference disagree on {case['id']}: {res['spec']} vs "
                               f"{drv['lspec']} :: {rule_sexp(case)}")
        report.evaluations += 1
        report.count('alternative_condition_mentions_one_of_two_variables')
        cfg_ = res['impl'].get('off', {})
        if 'exc' in cfg_ or any(sorted(rows) != sorted(res['spec']) for rows in cfg_.get('outs', [])):
            if 'C12-F1' in fnd:
                report.known['C12-F1'] = report.known.get('C12-F1', 0) + 1
                report.known_text['C12-F1'] = fnd['C12-F1']['what']
            else:
                what = 'conclusions differ from the ripple-down-rules reference (alternative over one of two variables, cache off)'
                report.violations.append((what, {'what': what, 'case': case, 'case_sexp': rule_sexp(case),
                                                 'expected': sorted(res['spec']), 'observed': cfg_.get('outs') or cfg_.get('exc')}))
    return ['EqlModel.Props.C12', 'EqlModel.Props.C12Rows', 'EqlModel.Lemmas.RuleBuild', 'EqlModel.RulesExt'], [
        "branch-closed conditions: each branch's conditions mention the variables its conclusion uses",
        "one Add conclusion per branch; next_rule is outside the property",
        "the construction (refinement/alternative attachment) is transliterated (refineAt/altAt/buildKids) and proved to yield "
        "the prescribed tree for every program (c12_build_expected); it is tied to the code by the tree-shape correspondence"]


# ------------------------------------------------------------------------------------------- C11

def nonuniform_or_r(c):
    """A disjunction whose sides mention different variables (its true outputs may leave a variable unbound)."""
    from .props_q2 import nonuniform_or
    return nonuniform_or(c)


def c11(report, rng, tier, findings):
    n = n_cases(tier, 240, 3000)
    cases = []
    for i in range(n):
        nv = rng.choice((1, 1, 2))
        if i % 8 == 7:
            nv = 2            # (the template below needs two variables)
        cfg = gen.Cfg(n_vars=(nv, nv), n_objs=(1, 4) if nv == 1 else ((1, 3) if i % 8 != 7 else (2, 4)), depth=2, preds=True,
                      empty_domain=0.0, falsy=0.3, int_range=(0, 2), subclasses=0.0)
        base = gen.gen_case(rng, cfg, 'x')
        ids = [v[0] for v in base['vars']]
        g = gen.CondGen(rng, cfg, ids)
        # the head's argument expressions mention all variables of the rule
        args = []
        for v in ids:
            args.append(rng.choice([('var', v), ('var', v), ('attr', 'ref', ('var', v)), ('attr', 'b', ('var', v))]))
        if rng.random() < 0.5 and len(args) < 3:
            args.append(rng.choice([('lit', rng.choice(gen.FALSY + [('i', 7)])), ('attr', 'a', ('var', ids[0])),
                                    ('attr', 'a', ('var', ids[-1]))]))
        if rng.random() < 0.4:
            rng.shuffle(args)
        # the body: any condition (disjunction / negation allowed); in 35% of the rules it leaves a head variable
        # UNBOUND (a head-only variable, or the far side of a disjunction over different variables): the head then
        # enumerates that variable's domain
        body = []
        bound = list(ids)
        r_b = rng.random()
        if r_b < 0.2 and len(ids) >= 2:
            bound = rng.sample(ids, len(ids) - 1)            # one variable is head-only
        for v in bound:
            g.var_ids = [v]
            body.append(g.cond(rng.randint(0, 2)))
        g.var_ids = ids
        if 0.2 <= r_b < 0.35 and nv == 2:
            body = [('or', body[0], body[1])]
        elif nv == 2 and rng.random() < 0.6 and len(bound) == 2:
            body.append(g.cond(1))
        case = {'id': f'i{i}', 'classes': base['classes'], 'objs': base['objs'], 'vars': base['vars'],
                'args': args, 'rule': {'tag': 0, 'cond': body, 'kids': []}}
        if rng.random() < 0.25 and len(args) < 3:
            # a NESTED CONSTRUCTOR argument C(ref=e): the existing instances of C whose field equals e; the explicit twin
            # ranges a fresh variable over all objects of that class and carries the equality in its body
            z = 90
            cls = rng.choice([c for c, _ in base['classes']])
            e = rng.choice([('var', v) for v in ids] + [('attr', 'ref', ('var', ids[0]))])
            k = rng.randint(0, len(args))
            all_objs = [('o', j) for j, _, _ in base['objs']]
            case['args'] = args[:k] + [('nestedc', cls, 'ref', e)] + args[k:]
            case['explicit'] = {**case, 'args': args[:k] + [('var', z)] + args[k:],
                                'vars': list(base['vars']) + [(z, cls, all_objs)],
                                'rule': {'tag': 0, 'kids': [],
                                         'cond': body + [('cmp', 'eq', ('attr', 'ref', ('var', z)), e)]}}
            case['nested_head'] = True
        if i % 8 == 7 and len(ids) == 2:
            # template: a rule variable x appears in the head ONLY inside a nested constructor argument, C(ref=x), the body
            # is a disjunction of two joins: assignments that differ only in x are different instances
            x_, y_ = ids
            z = 90
            cls = rng.choice([c for c, _ in base['classes']])
            all_objs = [('o', j) for j, _, _ in base['objs']]

            def jn(f1, f2, op):
                return ('cmp', op, ('attr', f1, ('var', x_)), ('attr', f2, ('var', y_)))
            body_t = [('or', jn('a', 'a', rng.choice(('eq', 'gt'))), jn('a', 'a', rng.choice(('le', 'ne', 'ge'))))]
            args_t = [('nestedc', cls, 'ref', ('var', x_)), rng.choice([('var', y_), ('attr', 'a', ('var', y_))])]
            if rng.random() < 0.5:
                args_t.reverse()
            case = {'id': f'i{i}', 'classes': base['classes'], 'objs': base['objs'], 'vars': base['vars'],
                    'args': args_t, 'rule': {'tag': 0, 'cond': body_t, 'kids': []}}
            case['explicit'] = {**case, 'args': [('var', z) if a[0] == 'nestedc' else a for a in args_t],
                                'vars': list(base['vars']) + [(z, cls, all_objs)],
                                'rule': {'tag': 0, 'kids': [],
                                         'cond': body_t + [('cmp', 'eq', ('attr', 'ref', ('var', z)), ('var', x_))]}}
            case['nested_head'] = True
            report.count('variable_only_inside_a_nested_argument_disjunctive_body')
        if i % 8 == 3:
            # template: a constructor argument that is a the(...) SUB-QUERY with a condition, built in rule mode:
            # T(f0=x, f1=the(entity(z, z.a == 7))) - exactly one object carries a == 7
            z = 91
            objs_ = [(j, c_, dict(at)) for j, c_, at in base['objs']]
            jz = rng.randrange(len(objs_))
            objs_[jz][2]['a'] = ('i', 7)
            all_objs = [('o', j) for j, _, _ in objs_]
            root_cls = base['classes'][0][0]
            link = ('cmp', 'eq', ('attr', 'a', ('var', z)), ('lit', ('i', 7)))
            args_s = [('var', v) for v in ids] + [('subq', 'the', z, link)]
            body_s = []
            for v in ids:
                g.var_ids = [v]
                body_s.append(g.atom())
            g.var_ids = ids
            case = {'id': f'i{i}', 'classes': base['classes'], 'objs': objs_, 'vars': list(base['vars']) + [(z, root_cls, all_objs)],
                    'args': args_s, 'rule': {'tag': 0, 'cond': body_s, 'kids': []}}
            case['explicit'] = {**case, 'args': [('var', v) for v in ids] + [('var', z)],
                                'rule': {'tag': 0, 'kids': [], 'cond': body_s + [link]}}
            case['nested_head'] = True
            report.count('constructor_argument_is_a_the_subquery')
        if rng.random() < 0.25:
            case['pre_take'] = rng.randint(1, 3)
        nested_ = [a for a in case['args'] if a[0] == 'nestedc']
        if case.get('nested_head') and len(nested_) == 1 and i % 3 == 0:
            case['nested_body'] = nested_[0]
            if 'explicit' in case:
                case['explicit'] = {**case['explicit'], 'nested_body': None}
            if i % 2 == 1 and 'explicit' in case:
                # ... as the ONLY condition of the body (the conditions root itself); the twin keeps the link alone
                ex = case['explicit']
                case['rule'] = {**case['rule'], 'cond': []}
                case['explicit'] = {**ex, 'rule': {**ex['rule'], 'cond': ex['rule']['cond'][-1:]}}
                case['nested_sole'] = True
        if case.get('nested_head') and i % 2 == 1:
            # half of the heads with a nested constructor argument (a variable without a domain whose constraints are
            # attached lazily, during the first evaluation): the FIRST evaluation is abandoned after one instance
            case['pre_take'] = 1
        if rng.random() < 0.15:
            case['falsy_head'] = rng.choice(('len', 'bool'))
        if rng.random() < 0.3:
            case['decoy_head'] = True
        cases.append(case)
    report.rule = ("random rules infer(entity(T(f=e, ...), body)) over 1-2 variables: heads with variables, attribute expressions "
                   "(object-valued and value-valued, falsy values included) and constants as arguments in any order, every variable "
                   "mentioned by the head; bodies with conjunction, disjunction, negation and predicates, 35% of them leaving a "
                   "head variable unbound (head-only variable, disjunction over different variables); 25% of the heads carry a "
                   "nested constructor argument C(ref=e) (= the existing instances of C whose field equals e); 25% of the rules "
                   "are evaluated after an evaluation of the same rule abandoned after 1-3 instances; evaluated under ambient mode none / "
                   "query / rule, caching on and off, twice; the multiset of (class, field values by dataset identity) is compared "
                   "with the oracle bindings; non-trivial = at least one and not all assignments satisfy the body")

    def nontriv(case, res):
        total = 1
        o = surface.Oracle({**case, 'sel': case['args'], 'cond': None, 'quant': 'an'})
        for v in case['vars']:
            total *= len(o.dom(v[0]))
        return 0 < len(res['spec']) < total
    # half of the rules are written in the property's own form infer(entity(T(f=e, ...), body)), the others as a one-node
    # rule tree (entity(let(T), body) + Add(views, T(f=e, ...))); a head variable the body leaves unbound is in the
    # property's scope for the first form only (a conclusion is evaluated once per body solution)
    def form(c):
        bound_ = set().union(*[surface.cond_vars(x) for x in c['rule']['cond']])
        uniform = not any(nonuniform_or_r(x) for x in c['rule']['cond'])
        return 'direct' if (c.get('nested_head') or not ({v[0] for v in c['vars']} <= bound_) or not uniform
                            or int(c['id'][1:]) % 2 == 0) else 'add'
    for c in cases:
        report.count('form_' + form(c))
        if c.get('nested_head'):
            report.count('nested_constructor_argument')
        if c.get('nested_body') is not None:
            report.count('nested_constructor_argument_also_a_body_condition')
        if c.get('nested_sole'):
            report.count('nested_constructor_argument_is_the_only_body_condition')
        if c.get('pre_take') is not None:
            report.count('after_an_abandoned_evaluation')
        if c.get('falsy_head'):
            report.count('head_class_whose_instances_are_falsy')
        c['direct_head'] = form(c) == 'direct'
        c['tag_last'] = int(c['id'][1:]) % 3 != 0
    results = pmap(rule_impl, [(c, {'caching': (False, True), 'evals': 2, 'ambients': (None, 'query', 'rule', 'query+q', 'rule+q')})
                               for c in cases])
    lines = run_driver([rule_sexp(c) for c in cases])
    judge_rules(report, cases, results, lines, findings, 'C11', nontriv, check_tree=False)
    return ['EqlModel.Props.C11'], [
        "the head's argument expressions mention all variables of the rule (the property's hypothesis)",
        "instances are identified by their field values (dataset identities) and their class; the construction itself "
        "(type.__call__) is trusted"]


HANDLERS = {'C11': c11, 'C12': c12}
