"""
Correspondence + property check for the query-shaped properties (C01 C02 C03 C06 C15 C16 C18 C19):
each case is a surface query on a generated dataset; the real implementation, the Lean model (through
the driver), the Lean specification and the Python oracle are run on it and compared on the
observables the property talks about.
"""
import random

from . import gen, surface
from .common import HarnessError, pmap, run_driver


# ----------------------------------------------------------------------------- worker side

class CacheProbe:
    """Wraps IndexedCache at run time: counts hits and records whether a lookup ever met a trie that is
    not prefix-uniform (scope predicate of known finding C05-F1)."""

    def __init__(self):
        from entity_query_language.cache_data import IndexedCache
        self.IC = IndexedCache
        self.hits = 0
        self.nonuniform = False
        self.orig_retrieve = IndexedCache.retrieve
        self.orig_check = IndexedCache.check

    @staticmethod
    def uniform(node, CacheDict, All):
        if not isinstance(node, CacheDict) or not node:
            return True
        keys = list(node.keys())
        has_all = any(k is All for k in keys)
        if has_all and len(keys) > 1:
            return False
        return all(CacheProbe.uniform(v, CacheDict, All) for v in node.values())

    def __enter__(self):
        from entity_query_language.cache_data import CacheDict
        from entity_query_language.utils import All
        probe = self

        def retrieve(self_, assignment=None, cache=None, key_idx=0, result=None, from_index=True):
            if cache is None and from_index:
                if not probe.uniform(self_.cache, CacheDict, All):
                    probe.nonuniform = True
            for r in probe.orig_retrieve(self_, assignment, cache, key_idx, result, from_index):
                if cache is None:
                    probe.hits += 1
                yield r

        self.IC.retrieve = retrieve
        return self

    def __exit__(self, *a):
        self.IC.retrieve = self.orig_retrieve


def eval_case(job):
    """Runs in a worker: implementation under the requested configurations + the oracle."""
    case, opts = job
    from . import impl
    res = {'id': case['id']}
    try:
        ocase = case.get('explicit', case)        # predicate-form cases carry their explicit twin
        o = surface.Oracle(ocase)
        res['spec'] = [surface.render_row(r) for r in o.rows()]
        res['dom_sizes'] = {v[0]: len(o.dom(v[0])) for v in ocase['vars']}
        res['raw_sizes'] = {v[0]: len(v[2]) for v in ocase['vars']}
    except Exception as e:  # the oracle raised: the case is malformed for the decisive stream
        res['spec_exc'] = f'{type(e).__name__}: {e}'
        return res
    res['impl'] = {}
    for caching, ambient in [(c, a) for c in opts.get('caching', (False, True)) for a in opts.get('ambients', (None,))]:
        with CacheProbe() as probe:
            tree = []
            outs = impl.run_case(case, caching=caching, evaluations=opts.get('evals', 2), tree_out=tree,
                                 ambient=ambient)
            if tree:
                res['tree'] = tree[0]
        key = ('on' if caching else 'off') + (('/' + ambient) if ambient else '')
        rendered = []
        pre_completed = any(o[0] == 'pre_completed' for o in outs)
        data_modified = any(o[0] == 'data_modified' for o in outs)
        outs = [o for o in outs if o[0] not in ('pre_completed', 'data_modified')]
        for out in outs:
            if out[0] == 'rows':
                rendered.append(('rows', [surface.render_row(r) for r in out[1]]))
            elif out[0] == 'ok':
                rendered.append(('ok', surface.render_row(out[1])))
            else:
                rendered.append(out)
        res['impl'][key] = {'outs': rendered, 'hits': probe.hits, 'nonuniform': probe.nonuniform,
                            'pre_completed': pre_completed, 'data_modified': data_modified}
    return res


# ----------------------------------------------------------------------------- parent side

def parse_driver_line(line):
    """'<id>\tR\ta;b\tS\tc;d'  or  '<id>\tT\tok r\tS\t...' -> dict"""
    if line.startswith('ERR'):
        raise HarnessError('driver: ' + line)
    parts = line.split('\t')
    if len(parts) not in (7, 14) or parts[3] != 'S' or parts[5] != 'B':
        raise HarnessError('driver: ' + line)
    out = {'id': parts[0], 'lspec': [x for x in parts[4].split(';') if x], 'tree': parts[6]}
    if len(parts) == 14:
        rows_ = lambda s_: [x for x in s_.split(';') if x]  # noqa: E731
        out['l2'] = {'on': [rows_(parts[8]), rows_(parts[9]), rows_(parts[12])],
                     'off': [rows_(parts[10]), rows_(parts[11]), rows_(parts[13])]}
    if parts[1] == 'R':
        out['model'] = ('rows', [x for x in parts[2].split(';') if x])
    elif parts[1] == 'T':
        m = parts[2]
        out['model'] = ('ok', m[3:]) if m.startswith('ok ') else (m,)
    else:
        raise HarnessError('driver: ' + line)
    return out


def all_selected(case):
    return {v[0] for v in case['vars']} <= {t[1] for t in case['sel'] if t[0] == 'var'}


def canon(rows, case, ordered=False):
    """Canonical observable of a row list for this case."""
    if ordered:
        return list(rows)
    if all_selected(case):
        return sorted(rows)          # multiset: no row twice is part of the claim
    return sorted(set(rows))         # result set


def empty_unselected_domain(case, res):
    sel_vars = {t[1] for t in case['sel'] if t[0] == 'var'}
    return any(n == 0 and v not in sel_vars for v, n in res['dom_sizes'].items())


def run_query_cases(report, cases, opts, judge):
    """Run all cases; `judge(case, res, drv)` classifies each one."""
    # histories: a share of the an(...) cases is evaluated AFTER an evaluation of the same query object that was abandoned
    # after 1-3 results (an abandoned evaluation must not change what later evaluations return)
    rate = opts.get('abandon', 0.15)
    if rate and len(cases) > 1:
        import random
        r = random.Random(getattr(report, 'seed', 0) * 7919 + len(cases))
        for c in cases:
            if c.get('quant') == 'an' and 'pre_take' not in c and r.random() < rate:
                c['pre_take'] = r.randint(1, 3)
                report.count('after_an_abandoned_evaluation')
    # 8 % of the cases run on SIZED classes: an object with a == 0 is a falsy object (impl._Sized); nothing may change
    if opts.get('sized', 0.08) and len(cases) > 1:
        import random
        r2 = random.Random(getattr(report, 'seed', 0) * 104729 + len(cases))
        for c in cases:
            if 'sized_objs' not in c and r2.random() < opts.get('sized', 0.08):
                c['sized_objs'] = True
                report.count('sized_classes_falsy_objects')
    jobs = [(c, opts) for c in cases]
    results = pmap(eval_case, jobs)
    good = [(c, r) for c, r in zip(cases, results) if 'spec_exc' not in r]
    for c, r in zip(cases, results):
        if 'spec_exc' in r:
            report.count('skipped_oracle_raises')
    lines = run_driver([surface.case_sexp(c.get('explicit', c)) for c, _ in good]) if good else []
    for (case, res), line in zip(good, lines):
        drv = parse_driver_line(line)
        report.evaluations += 1
        # the Python oracle is only trusted as far as it agrees with the Lean specification
        ordered = opts.get('ordered', False)
        if canon(drv['lspec'], case, ordered) != canon(res['spec'], case, ordered):
            raise HarnessError(f"Python oracle and Lean specification disagree on {case['id']}: "
                               f"{res['spec']} vs {drv['lspec']} :: {surface.case_sexp(case)}")
        judge(case, res, drv)
