#!/bin/sh
# tools/try_seed.sh <patch.diff> <check id>... : apply a seeded change to /repo, run the checks, always undo.
patch="$1"; shift
cd /repo || exit 2
git diff --quiet || { echo "/repo is dirty"; exit 2; }
git apply "$patch" || { echo "patch does not apply"; exit 2; }
cd /verif
rm -rf /tmp/evidence.keep && cp -r evidence /tmp/evidence.keep
for c in "$@"; do
  for seed in ${SEEDS:-0}; do
    VERIF_SEED=$seed ./check "$c" ${TIER:+--tier $TIER} 2>&1 | grep -E "^\[|^VIOLATION|^KNOWN|HARNESS|Traceback" | cut -c1-260
  done
done
git -C /repo checkout -- . 
rm -rf evidence && mv /tmp/evidence.keep evidence
/venv/bin/python -m harness.translate >/dev/null
(cd lean && lake build driver >/dev/null 2>&1)
git -C /repo diff --quiet && echo "(reverted)"
