#!/bin/sh
# tools/try_seed.sh <patch.diff> <check id>... : apply a seeded change to /repo, run the checks, always undo.
patch="$1"; shift
cd /repo || exit 2
git diff --quiet || { echo "/repo is dirty"; exit 2; }
git apply "$patch" || { echo "patch does not apply"; exit 2; }
cd /verif
for c in "$@"; do
  for seed in ${SEEDS:-0}; do
    VERIF_SEED=$seed ./check "$c" ${TIER:+--tier $TIER} 2>&1 | grep -E "^\[|^VIOLATION|^KNOWN|HARNESS|Traceback" | cut -c1-260
  done
done
git -C /repo checkout -- . 
git -C /repo diff --quiet && echo "(reverted)"
