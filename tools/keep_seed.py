#!/usr/bin/env python3
"""tools/keep_seed.py <name> <property> <out dir> <json meta fields...>: store a confirmed seeded change."""
import json, os, shutil, sys
name, prop, out = sys.argv[1:4]
extra = json.loads(sys.argv[4]) if len(sys.argv) > 4 else {}
d = os.path.join('/verif/seeded', name)
os.makedirs(d, exist_ok=True)
for f in ('patch.diff', 'demo.py', 'notes.md'):
    if os.path.exists(os.path.join(out, f)):
        shutil.copy(os.path.join(out, f), os.path.join(d, f))
meta = {'breaks_property': prop,
        'confirmed': 'demo.py exits 1 with the change and 0 without it; the 70-test suite passes with the change (re-run by me in the scratch worktree)'}
meta.update(extra)
json.dump(meta, open(os.path.join(d, 'meta.json'), 'w'), indent=1)
print('kept', d)
