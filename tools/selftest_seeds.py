#!/usr/bin/env python3
"""Mutation self-test: every kept seeded change must be reported (exit 1 + VIOLATION) by the checks listed in its
meta.json, and the clean tree must pass.  Applies each patch to /repo and ALWAYS undoes it.  Not a registered check."""
import json, os, subprocess, sys, shutil
V = '/verif'
def sh(cmd, **kw):
    return subprocess.run(cmd, shell=True, capture_output=True, text=True, **kw)
assert sh('git -C /repo diff --quiet').returncode == 0, '/repo is dirty'
shutil.rmtree('/tmp/evidence.keep', ignore_errors=True)
shutil.copytree(f'{V}/evidence', '/tmp/evidence.keep')
rows = []
only = sys.argv[1:]          # optional name prefixes
try:
    for name in sorted(os.listdir(f'{V}/seeded')):
        d = f'{V}/seeded/{name}'
        meta = json.load(open(f'{d}/meta.json'))
        checks = [c for c in meta.get('caught_by', []) if c.startswith('C') and len(c) == 3]
        if meta.get('quick_reliable') is False:
            print((name, '-', 'skipped: caught by the thorough tier only (see meta.json)', '-'), flush=True)
            continue
        if only and not any(name.startswith(o) for o in only):
            continue
        if meta.get('obsolete'):
            print((name, '-', 'skipped: obsolete (see meta.json)', '-'), flush=True)
            continue
        if sh(f'git -C /repo apply {d}/patch.diff').returncode != 0:
            rows.append((name, '-', 'PATCH-DOES-NOT-APPLY', '-'))
            print(rows[-1], flush=True)
            continue
        try:
            for c in checks:
                r = sh(f'./check {c}', cwd=V)
                hit = r.returncode == 1 and 'VIOLATION property=' in r.stdout
                nof = 'no-failing-input-found' in r.stdout
                rows.append((name, c, 'caught' if hit else f'MISSED (exit {r.returncode})', 'no-failing-input-found' if nof else 'with replay'))
                print(rows[-1], flush=True)
        finally:
            sh('git -C /repo checkout -- .')
finally:
    shutil.rmtree(f'{V}/evidence'); shutil.move('/tmp/evidence.keep', f'{V}/evidence')
    sh('/venv/bin/python -m harness.translate', cwd=V)
    sh('lake build driver', cwd=f'{V}/lean')
missed = [r for r in rows if not r[2].startswith('caught')]
print(f'{len(rows) - len(missed)} of {len(rows)} (seed, check) pairs caught; missed: {missed}')
sys.exit(1 if missed else 0)
