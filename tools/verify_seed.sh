#!/bin/sh
# tools/verify_seed.sh <out dir>: confirm a seeded change in my own scratch worktree (/tmp/seed/verify):
# demo fails with it, passes without it, the 70-test suite passes with it.
out="$1"; wt=/tmp/seed/verify
cd $wt || exit 2
git checkout -q -- . ; git clean -fdq
PYTHONPATH=$wt/src /venv/bin/python $out/demo.py >/dev/null 2>&1; echo "unchanged: demo exit $?"
git apply $out/patch.diff || { echo "patch does not apply"; exit 2; }
git diff --stat | tail -1
PYTHONPATH=$wt/src /venv/bin/python $out/demo.py >/dev/null 2>&1; echo "with change: demo exit $?"
PYTHONPATH=$wt/src /venv/bin/python -m pytest -q -p no:cacheprovider test 2>&1 | tail -1
git checkout -q -- . ; git clean -fdq
